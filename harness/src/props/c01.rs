//! C01: UPDATE decoding reports exactly what is on the wire, for every session
//! configuration; End-of-RIB is recognised for exactly its family.
//!
//! request   upd CFG HEX HASH EXPECT      (see c02.rs for CFG / the reply format)
//!           enc CFG WD ATTRS ANN         the abstract content itself (typed attributes, NLRI
//!                                        lists, next hops; format in lean/Rc/Drv/C01.lean):
//!                                        the reply is `ok HEX`, here from the Rust reference
//!                                        encoder below, on the model side from the Lean
//!                                        reference encoder `encUpdateT` which the C01
//!                                        theorems are about - any difference breaks the tie
//!
//! A type-directed generator draws an abstract UPDATE content (any mix of
//! conventional and multiprotocol sections, any subset and order of attributes,
//! both length encodings, the 13 families x ADD-PATH, boundary prefix lengths,
//! label stacks, sizes up to 4096) together with a session configuration,
//! encodes it with the reference encoder below (written from RFC 4271 / 4760 /
//! 7911 / 6793 and the per-family RFCs; it shares no code with routecore's
//! composers) and renders what a faithful decoder has to report (EXPECT: the
//! groups of the observation that the content determines, `|`-separated).
//! HASH ties EXPECT to HEX so that a shrunk / edited line is never judged
//! against an expectation that does not belong to it.
//! exec decodes HEX with routecore under CFG and observes every accessor
//! (c02::observe); the oracle demands observation = content.
use crate::common::*;
use crate::props::c02::{afisafi_name, cfg_rx, exec_upd, group, judge_c02, FAM_NAMES};
use crate::props::c04::{canon_flags, gen_value, nats, parse_req, req_v, show_v, V};
use crate::props::c05::{gen_val, read, ref_enc, show, unhex_strict, Shape, Val, VARIANTS};
use crate::props::c13::{gen_segments, ref_encode as ref_encode_path, THop};

pub struct C01;

pub(crate) type Cfg = (bool, Vec<((u16, u8), char)>);

pub(crate) fn cfg_token(c: &Cfg) -> String {
    let mut s = String::from(if c.0 { "4" } else { "2" });
    for (k, d) in &c.1 { s.push_str(&format!(",{}.{}.{}", k.0, k.1, d)); }
    s
}

#[derive(Clone, Debug)]
pub(crate) enum AttrC {
    /// one of the 18 typed kinds that are not AS paths
    Val { v: V, flags: u8, ext: bool },
    /// AS_PATH (2) / AS4_PATH (17) as wire segments
    Path { code: u8, segs: Vec<(u8, Vec<u32>)>, flags: u8, ext: bool },
    /// a type code routecore has no type for
    Raw { flags: u8, code: u8, ext: bool, value: Vec<u8> },
    /// `rsv`: the reserved octet as sent (RFC 4760 3: 0; "SHOULD be ignored upon receipt")
    Reach { flags: u8, ext: bool, fam: usize, nh: Vec<u8>, rsv: u8, nlri: Vec<Val> },
    Unreach { flags: u8, ext: bool, fam: usize, nlri: Vec<Val> },
    /// MP_REACH_NLRI of an AFI/SAFI routecore has no NLRI type for: next-hop field, reserved octet
    /// and the octets after it as they are (Lean: `AttrC.reachU`)
    ReachU { flags: u8, ext: bool, afi: u16, safi: u8, nh: Vec<u8>, rsv: u8, body: Vec<u8> },
    /// MP_UNREACH_NLRI of an AFI/SAFI routecore has no NLRI type for: the octets after AFI/SAFI
    /// as they are (Lean: `AttrC.unreachU`)
    UnreachU { flags: u8, ext: bool, afi: u16, safi: u8, body: Vec<u8> },
}

#[derive(Clone, Debug)]
pub(crate) struct Content { pub wd: Vec<Val>, pub attrs: Vec<AttrC>, pub ann: Vec<Val> }

fn fam_shape(f: usize) -> Shape { VARIANTS[f][0].shape }

//------------ reference encoder ---------------------------------------------------

/// value octets of one attribute in a session of the given ASN width
fn attr_value(four: bool, a: &AttrC) -> Vec<u8> {
    match a {
        AttrC::Val { v: V::Aggregator(asn, addr), .. } if !four => { let mut o = (*asn as u16).to_be_bytes().to_vec(); o.extend(addr.to_be_bytes()); o }
        AttrC::Val { v, .. } => v.ref_value().unwrap(),
        AttrC::Path { code, segs, .. } => ref_encode_path(segs, if *code == 17 { true } else { four }),
        AttrC::Raw { value, .. } => value.clone(),
        AttrC::Reach { fam, nh, rsv, nlri, .. } => {
            let k = FAM_NAMES[*fam].1;
            let mut o = k.0.to_be_bytes().to_vec(); o.push(k.1);
            o.push(nh.len() as u8); o.extend(nh); o.push(*rsv);
            for n in nlri { o.extend(ref_enc(fam_shape(*fam), n)); }
            o
        }
        AttrC::ReachU { afi, safi, nh, rsv, body, .. } => {
            let mut o = afi.to_be_bytes().to_vec(); o.push(*safi);
            o.push(nh.len() as u8); o.extend(nh); o.push(*rsv); o.extend(body);
            o
        }
        AttrC::Unreach { fam, nlri, .. } => {
            let k = FAM_NAMES[*fam].1;
            let mut o = k.0.to_be_bytes().to_vec(); o.push(k.1);
            for n in nlri { o.extend(ref_enc(fam_shape(*fam), n)); }
            o
        }
        AttrC::UnreachU { afi, safi, body, .. } => { let mut o = afi.to_be_bytes().to_vec(); o.push(*safi); o.extend(body); o }
    }
}
fn attr_code(a: &AttrC) -> u8 {
    match a { AttrC::Val { v, .. } => v.code(), AttrC::Path { code, .. } => *code, AttrC::Raw { code, .. } => *code, AttrC::Reach { .. } | AttrC::ReachU { .. } => 14, AttrC::Unreach { .. } | AttrC::UnreachU { .. } => 15 }
}
/// flags octet on the wire (EXTENDED_LEN set exactly when the two-octet length is used)
fn attr_flags(a: &AttrC) -> u8 {
    let (f, e) = match a { AttrC::Val { flags, ext, .. } | AttrC::Path { flags, ext, .. } | AttrC::Raw { flags, ext, .. }
        | AttrC::Reach { flags, ext, .. } | AttrC::Unreach { flags, ext, .. } | AttrC::ReachU { flags, ext, .. } | AttrC::UnreachU { flags, ext, .. } => (*flags, *ext) };
    (f & 0xef) | if e { 0x10 } else { 0 }
}
fn enc_attr(four: bool, a: &AttrC) -> Vec<u8> {
    let v = attr_value(four, a);
    let fl = attr_flags(a);
    let mut o = vec![fl, attr_code(a)];
    if fl & 0x10 != 0 { o.extend((v.len() as u16).to_be_bytes()); } else { o.push(v.len() as u8); }
    o.extend(v);
    o
}

/// RFC 4271 4.3: marker, length, type 2, withdrawn routes, path attributes, NLRI
pub(crate) fn ref_encode(cfg: &Cfg, c: &Content) -> Vec<u8> {
    let wd: Vec<u8> = c.wd.iter().flat_map(|n| ref_enc(Shape::Pfx, n)).collect();
    let at: Vec<u8> = c.attrs.iter().flat_map(|a| enc_attr(cfg.0, a)).collect();
    let an: Vec<u8> = c.ann.iter().flat_map(|n| ref_enc(Shape::Pfx, n)).collect();
    let total = 19 + 2 + wd.len() + 2 + at.len() + an.len();
    let mut m = vec![0xffu8; 16];
    m.extend((total as u16).to_be_bytes());
    m.push(2);
    m.extend((wd.len() as u16).to_be_bytes()); m.extend(wd);
    m.extend((at.len() as u16).to_be_bytes()); m.extend(at);
    m.extend(an);
    m
}

//------------ what a faithful decoder reports ---------------------------------------

fn item(shape: Shape, v: &Val) -> String { show(shape, v).replace(' ', ",") }
fn items(shape: Shape, l: &[Val]) -> Vec<String> { l.iter().map(|v| item(shape, v)).collect() }
fn lst(v: &[String]) -> String { if v.is_empty() { "-".into() } else { v.join(";") } }

fn path_text(segs: &[(u8, Vec<u32>)], four: bool) -> String {
    let mut t = Vec::new();
    for (ty, a) in segs {
        if *ty == 2 && !a.is_empty() { for x in a { t.push(format!("a{}", x)); } } else { t.push(format!("s{}/{}:{}", ty, if four { 4 } else { 2 }, nats(a))); }
    }
    if t.is_empty() { "-".into() } else { t.join(",") }
}

/// RFC 4760 3 / 4364 / 4659 / 5549 / 8955: the next hop a family's MP_REACH_NLRI carries
fn nh_text(fam: usize, nh: &[u8]) -> String {
    match (fam, nh.len()) {
        (5, _) | (10, _) => "empty".into(),
        (6, 32) => format!("ll:{}:{}", hex(&nh[..16]), hex(&nh[16..])),
        (3, 12) | (9, 24) => format!("vpn:{}:{}", hex(&nh[..8]), hex(&nh[8..])),
        _ => format!("uni:{}", hex(nh)),
    }
}

pub(crate) fn expect(cfg: &Cfg, c: &Content) -> String {
    let four = cfg.0;
    let bytes = ref_encode(cfg, c);
    let wdl: usize = c.wd.iter().map(|n| ref_enc(Shape::Pfx, n).len()).sum();
    let atl: usize = c.attrs.iter().map(|a| enc_attr(four, a).len()).sum();
    let mut g: Vec<String> = Vec::new();
    let mut put = |n: &str, v: String| g.push(format!("{}={}", n, v));
    put("len", format!("{},{},{}", bytes.len(), wdl, atl));
    let attrs: Vec<String> = c.attrs.iter().map(|a| {
        let v = attr_value(four, a);
        let owned = match a {
            AttrC::Val { v, .. } => format!("typed:{}", show_v(v)),
            AttrC::Path { code: 2, segs, .. } => format!("typed:aspath:{}", path_text(segs, four)),
            AttrC::Path { segs, .. } => format!("typed:as4path:{}", path_text(segs, true)),
            AttrC::Raw { .. } => format!("unimpl:{}:{}:{}", attr_flags(a), attr_code(a), hex(&v)),
            // how to_owned() presents MP_REACH_NLRI / MP_UNREACH_NLRI (today: as unrecognised attributes) is not
            // content; flags, code, length and the value octets are (`mp:HEX`: presented as an unrecognised
            // attribute it has these flags, this code and these octets - of a family or not, the reserved
            // octet included; another presentation is not judged here, the NLRI are judged through mw / ma)
            _ => format!("mp:{}", hex(&v)),
        };
        format!("{}:{}:{}:{}", attr_flags(a), attr_code(a), v.len(), owned)
    }).collect();
    put("attrs", lst(&attrs));
    let cw = items(Shape::Pfx, &c.wd);
    let ca = items(Shape::Pfx, &c.ann);
    put("cw", lst(&cw));
    put("ca", lst(&ca));
    // The first MP_REACH_NLRI / MP_UNREACH_NLRI (the accessors read the first). Of one of the 13 families:
    // the NLRI type is the family with the session's ADD-PATH setting, the items are the NLRI. Of an
    // AFI/SAFI outside the 13: the type is Unsupported(afi, safi) and there is NO item, whatever octets
    // the attribute holds (C01 `unsupported_reach_reported` / `unsupported_unreach_reported`).
    let ty = |fam: usize| format!("{}{}", FAM_NAMES[fam].0, if cfg_rx(cfg, FAM_NAMES[fam].1) { "Addpath" } else { "" });
    let conv_ty = format!("Ipv4Unicast{}", if cfg_rx(cfg, (1, 1)) { "Addpath" } else { "" });
    // (type name, family index if supported, items)
    let reach: Option<(String, Option<usize>, Vec<String>)> = c.attrs.iter().find(|a| attr_code(a) == 14).map(|a| match a {
        AttrC::Reach { fam, nlri, .. } => (ty(*fam), Some(*fam), items(fam_shape(*fam), nlri)),
        AttrC::ReachU { afi, safi, .. } => (format!("U{}.{}", afi, safi), None, vec![]),
        _ => unreachable!() });
    let unreach: Option<(String, Option<usize>, Vec<String>)> = c.attrs.iter().find(|a| attr_code(a) == 15).map(|a| match a {
        AttrC::Unreach { fam, nlri, .. } => (ty(*fam), Some(*fam), items(fam_shape(*fam), nlri)),
        AttrC::UnreachU { afi, safi, .. } => (format!("U{}.{}", afi, safi), None, vec![]),
        _ => unreachable!() });
    let mw: Vec<String> = unreach.as_ref().map(|x| x.2.clone()).unwrap_or_default();
    let ma: Vec<String> = reach.as_ref().map(|x| x.2.clone()).unwrap_or_default();
    {
        // C01 speaks of the NLRI of every SUPPORTED family. Of a section of an AFI/SAFI outside the 13 it demands
        // only that no NLRI is reported that was not encoded (there is none): `*` = how the section's type is named
        // (`U<afi>.<safi>`, no iterator at all, ...) is not judged - in `mw` / `ma`, `tw` / `ta` and `fams` alike
        let (unsup_w, unsup_a) = (matches!(unreach, Some((_, None, _))), matches!(reach, Some((_, None, _))));
        let star = |u: bool, t: &String| if u { "*".to_string() } else { t.clone() };
        put("mw", match &unreach { Some((t, _, _)) => format!("{}:{}", star(unsup_w, t), lst(&mw)), None => "none".into() });
        put("ma", match &reach { Some((t, _, _)) => format!("{}:{}", star(unsup_a, t), lst(&ma)), None => "none".into() });
        put("w", lst(&[mw.clone(), cw.clone()].concat()));
        put("a", lst(&[ma.clone(), ca.clone()].concat()));
        put("wv", format!("ok:{}", lst(&[cw.clone(), mw.clone()].concat())));
        put("av", format!("ok:{}", lst(&[ca.clone(), ma.clone()].concat())));
        // typed_withdrawals::<T> / typed_announcements::<T>, for the NLRI type T the message itself has for
        // the section (family + the session's ADD-PATH setting for it): the items of the section. Nothing is
        // said of IPv4 unicast when it is in the conventional AND the MP section (the accessor has one answer).
        // An unsupported AFI/SAFI is no T's: nothing may be reported for it.
        let typed = |conv: &[String], mp: Option<(usize, &Vec<String>)>| -> String {
            let mut parts: Vec<String> = Vec::new();
            let both = !conv.is_empty() && matches!(mp, Some((0, _)));
            if !conv.is_empty() { parts.push(if both { "Ipv4Unicast:*".to_string() } else { format!("{}:{}", conv_ty, lst(conv)) }); }
            if let Some((f, l)) = mp { if !both { parts.push(format!("{}:{}", ty(f), lst(l))); } }
            if parts.is_empty() { "-".into() } else { parts.join("&") }
        };
        // (`*:-` next to an unsupported section: a T may be answered without an item - `T:-` or `T:err`)
        let also = |u: bool, s: String| if !u { s } else if s == "-" { "*:-".to_string() } else { format!("{}&*:-", s) };
        put("tw", also(unsup_w, typed(&cw, unreach.as_ref().and_then(|x| x.1).map(|f| (f, &mw)))));
        put("ta", also(unsup_a, typed(&ca, reach.as_ref().and_then(|x| x.1).map(|f| (f, &ma)))));
        put("fams", format!("{},{},{},{}",
            if c.wd.is_empty() { "-".into() } else { conv_ty.clone() }, if c.ann.is_empty() { "-".into() } else { conv_ty.clone() },
            unreach.as_ref().map(|x| star(unsup_w, &x.0)).unwrap_or("-".into()), reach.as_ref().map(|x| star(unsup_a, &x.0)).unwrap_or("-".into())));
    }
    // End-of-RIB (RFC 4724 2): the empty UPDATE, or an UPDATE holding nothing but an MP_UNREACH_NLRI without
    // withdrawn routes. "Carries NLRI" is a fact about the octets: a non-empty conventional section, NLRI in
    // an MP_REACH_NLRI, octets after AFI/SAFI in an MP_UNREACH_NLRI - of ANY family, supported or not.
    let unsup_body = c.attrs.iter().any(|a| matches!(a, AttrC::UnreachU { body, .. } | AttrC::ReachU { body, .. } if !body.is_empty()));
    let carries_nlri = !c.wd.is_empty() || !c.ann.is_empty() || !mw.is_empty() || !ma.is_empty() || unsup_body;
    let eor = if c.wd.is_empty() && c.ann.is_empty() && c.attrs.is_empty() { "Ipv4Unicast".to_string() }
        else if carries_nlri { "-".into() }
        else if let [AttrC::Unreach { fam, .. }] = &c.attrs[..] { afisafi_name(FAM_NAMES[*fam].1) }
        // the marker of a family outside the 13: if it is recognised, then for that family
        else if let [AttrC::UnreachU { afi, safi, .. }] = &c.attrs[..] { format!("-or-{}", afisafi_name((*afi, *safi))) }
        else { "?".into() };
    put("eor", eor);
    let find = |code: u8| c.attrs.iter().find(|a| attr_code(a) == code);
    let val = |code: u8| find(code).map(|a| attr_value(four, a));
    let be = |v: &[u8]| u32::from_be_bytes([v[0], v[1], v[2], v[3]]);
    put("origin", val(1).map(|v| v[0].to_string()).unwrap_or("-".into()));
    put("aspath", match find(2) { Some(AttrC::Path { segs, .. }) => format!("{}:{}", hex(&val(2).unwrap()), path_text(segs, four)), _ => "-".into() });
    put("as4path", match find(17) { Some(AttrC::Path { segs, .. }) => format!("{}:{}", hex(&val(17).unwrap()), path_text(segs, true)), _ => "-".into() });
    // hops() / segments() / the segments' asns() of the returned paths, driven to their ends: a non-empty
    // AS_SEQUENCE yields one hop per AS number, every other segment is one hop (RFC 4271 4.3 / 5065)
    let pit = |code: u8| match find(code) { Some(AttrC::Path { segs, .. }) => format!("{}.{}.{}",
        segs.iter().map(|(t, a)| if *t == 2 && !a.is_empty() { a.len() } else { 1 }).sum::<usize>(), segs.len(), segs.iter().map(|(_, a)| a.len()).sum::<usize>()), _ => "-".into() };
    put("pit", format!("{}/{}", pit(2), pit(17)));
    put("cnh", val(3).map(|v| format!("uni:{}", hex(&v))).unwrap_or("-".into()));
    // the MP next hop: the next-hop field read by the family's rule; there is no rule for an AFI/SAFI
    // outside the 13 and C01 does not say what `mp_next_hop()` answers then (today an Err; `Unimplemented`
    // would do as well): `*` = not judged. The reserved octet plays no role.
    let reach_nh: Option<(usize, Vec<u8>)> = c.attrs.iter().find(|a| attr_code(a) == 14).and_then(|a| if let AttrC::Reach { fam, nh, .. } = a { Some((*fam, nh.clone())) } else { None });
    put("mnh", match (&reach, &reach_nh) { (None, _) => "-".into(), (Some(_), Some((f, nh))) => nh_text(*f, nh), (Some(_), None) => "*".into() });
    // find_next_hop(k): the MP next hop when the MP_REACH_NLRI is of family k; for IPv4 unicast
    // otherwise the conventional NEXT_HOP; nothing for every other family (`U<afi>.<safi>:*`: what is
    // answered for the unsupported AFI/SAFI of the MP_REACH_NLRI itself is not judged)
    let mut fnh: Vec<String> = Vec::new();
    if let Some(AttrC::ReachU { afi, safi, .. }) = c.attrs.iter().find(|a| attr_code(a) == 14) { fnh.push(format!("{}:*", afisafi_name((*afi, *safi)))); }
    for (i, (name, k)) in FAM_NAMES.iter().enumerate() {
        match &reach_nh {
            Some((f, nh)) if *f == i => fnh.push(format!("{}:{}", name, nh_text(*f, nh))),
            _ => if *k == (1, 1) { if let Some(v) = val(3) { fnh.push(format!("{}:uni:{}", name, hex(&v))); } },
        }
    }
    put("fnh", if fnh.is_empty() { "-".into() } else { fnh.join("&") });
    put("med", val(4).map(|v| be(&v).to_string()).unwrap_or("-".into()));
    put("lp", val(5).map(|v| be(&v).to_string()).unwrap_or("-".into()));
    put("atomic", find(6).is_some().to_string());
    put("aggr", match find(7) { Some(AttrC::Val { v: V::Aggregator(a, b), .. }) => format!("{}:{}", a, hex(&b.to_be_bytes())), _ => "-".into() });
    let recs = |code: u8, k: usize| val(code).map(|v| v.chunks(k).map(hex).collect::<Vec<_>>());
    let mut all: Vec<String> = Vec::new();
    for (n, code, k) in [("comm", 8u8, 4usize), ("ext", 16, 8), ("v6ext", 25, 20), ("large", 32, 12)] {
        match recs(code, k) { Some(l) => { put(n, lst(&l)); all.extend(l); } None => put(n, "none".into()) }
    }
    put("all", if all.is_empty() { "-".into() } else { all.join(";") });
    g.join("|")
}

/// `tw` / `ta`: every part the content determines is reported as it is (`Name:*` = the family may be
/// reported, its items are not judged), and no NLRI is reported for a family nothing was encoded for.
/// The reading of the section's octets under the other ADD-PATH setting is not content and is not judged.
fn typed_ok(want: &str, got: &str) -> bool {
    let parts = |s: &str| -> Vec<(String, String)> { if s == "-" { vec![] } else { s.split('&').filter_map(|p| p.split_once(':').map(|(a, b)| (a.to_string(), b.to_string()))).collect() } };
    let fam = |n: &str| n.strip_suffix("Addpath").unwrap_or(n).to_string();
    let (w, g) = (parts(want), parts(got));
    // `*:-` (the MP section is of an unsupported AFI/SAFI): answers without an item are not judged
    let lax = w.iter().any(|(n, _)| n == "*");
    w.iter().all(|(n, l)| n == "*" || l == "*" || g.iter().any(|(n2, l2)| n2 == n && l2 == l))
        && g.iter().all(|(n2, l2)| w.iter().any(|(n, _)| fam(n) == fam(n2)) || (lax && (l2 == "-" || l2 == "err")))
}

fn fnv(s: &str) -> String {
    let mut h: u64 = 0xcbf29ce484222325;
    for b in s.bytes() { h ^= b as u64; h = h.wrapping_mul(0x100000001b3); }
    format!("{:016x}", h)
}

pub(crate) fn case_line(cfg: &Cfg, c: &Content) -> String {
    let hx = hex(&ref_encode(cfg, c));
    format!("upd {} {} {} {}", cfg_token(cfg), hx, fnv(&hx), expect(cfg, c))
}

//------------ the abstract content as an `enc` request ------------------------------------

/// can the segment list be written as a hop path whose composition is forced (one segment
/// per run of AS_SEQUENCE hops, RFC 4271 4.3: no two adjacent AS_SEQUENCE segments, no empty one)?
fn hop_form_ok(segs: &[(u8, Vec<u32>)]) -> bool {
    segs.iter().all(|(t, a)| (*t == 2 && !a.is_empty()) || *t == 1 || *t == 3 || *t == 4)
        && segs.windows(2).all(|w| !(w[0].0 == 2 && w[1].0 == 2))
}

fn attr_spec(a: &AttrC, hop_form: bool) -> String {
    let fl = attr_flags(a);
    match a {
        AttrC::Val { v, .. } => format!("t~{}~{}", fl, req_v(v)),
        AttrC::Path { code, segs, .. } if hop_form && hop_form_ok(segs) =>
            format!("t~{}~{}:{}", fl, if *code == 2 { "aspath" } else { "as4path" }, path_text(segs, true)),
        AttrC::Path { code, segs, .. } => {
            let l: Vec<String> = segs.iter().map(|(t, a)| format!("{}:{}", t, nats(a))).collect();
            format!("p~{}~{}~{}", fl, code, if l.is_empty() { "-".into() } else { l.join(",") })
        }
        AttrC::Raw { code, value, .. } => format!("r~{}~{}~{}", fl, code, hex(value)),
        AttrC::Reach { fam, nh, rsv: 0, nlri, .. } => format!("m~{}~{}~{}~{}", fl, FAM_NAMES[*fam].0, hex(nh), lst(&items(fam_shape(*fam), nlri))),
        AttrC::Reach { fam, nh, rsv, nlri, .. } => format!("m~{}~{}~{}~{}~{}", fl, FAM_NAMES[*fam].0, hex(nh), lst(&items(fam_shape(*fam), nlri)), rsv),
        AttrC::ReachU { afi, safi, nh, rsv, body, .. } => format!("M~{}~{}.{}~{}~{}~{}", fl, afi, safi, hex(nh), rsv, hex(body)),
        AttrC::Unreach { fam, nlri, .. } => format!("u~{}~{}~{}", fl, FAM_NAMES[*fam].0, lst(&items(fam_shape(*fam), nlri))),
        AttrC::UnreachU { afi, safi, body, .. } => format!("U~{}~{}.{}~{}", fl, afi, safi, hex(body)),
    }
}

/// the request whose reply is the reference encoding of the content
pub(crate) fn spec_line(cfg: &Cfg, c: &Content, hop_form: bool) -> String {
    let at: Vec<String> = c.attrs.iter().map(|a| attr_spec(a, hop_form)).collect();
    format!("enc {} {} {} {}", cfg_token(cfg), lst(&items(Shape::Pfx, &c.wd)),
        if at.is_empty() { "-".into() } else { at.join("|") }, lst(&items(Shape::Pfx, &c.ann)))
}

fn parse_items(shape: Shape, s: &str) -> Option<Vec<Val>> {
    if s == "-" { return Some(vec![]); }
    s.split(';').map(|it| {
        let toks: Vec<&str> = it.split(',').collect();
        let ap = toks.first().map(|t| t.starts_with("pid=")).unwrap_or(false);
        let v = read(shape, ap, &toks)?;
        if v.pid.map(|p| p >= 1 << 32).unwrap_or(false) { return None; }
        Some(v)
    }).collect()
}

fn small_nat(s: &str) -> Option<u64> {
    if s.is_empty() || s.len() > 6 || !s.bytes().all(|c| c.is_ascii_digit()) { None } else { s.parse().ok() }
}
fn parse_u8(s: &str) -> Option<u8> { small_nat(s).and_then(|n| u8::try_from(n).ok()) }
/// `AFI.SAFI` in decimal
fn parse_key(s: &str) -> Option<(u16, u8)> {
    let (a, b) = s.split_once('.')?;
    if b.contains('.') { return None; }
    Some((u16::try_from(small_nat(a)?).ok()?, u8::try_from(small_nat(b)?).ok()?))
}

/// a hop path as one segment per run of AS_SEQUENCE hops (a run longer than 255 is split
/// into a first segment of `n % 255` and segments of 255 - any split is valid RFC 4271
/// wire form; this is the one C13 proves of `to_as_path`)
fn segs_of_hops(h: &[THop]) -> Vec<(u8, Vec<u32>)> {
    let mut out: Vec<(u8, Vec<u32>)> = Vec::new();
    let mut run: Vec<u32> = Vec::new();
    let flush = |run: &mut Vec<u32>, out: &mut Vec<(u8, Vec<u32>)>| {
        if run.is_empty() { return; }
        let k = run.len() % 255;
        if k > 0 { out.push((2, run[..k].to_vec())); }
        for c in run[k..].chunks(255) { out.push((2, c.to_vec())); }
        run.clear();
    };
    for x in h {
        match x {
            THop::Asn(a) => run.push(*a),
            THop::Seg(t, _, a) => { flush(&mut run, &mut out); out.push((*t, a.clone())); }
        }
    }
    flush(&mut run, &mut out);
    out
}

fn parse_attr(s: &str) -> Option<AttrC> {
    let p: Vec<&str> = s.split('~').collect();
    let fl = parse_u8(p.get(1)?)?;
    let (flags, ext) = (fl, fl & 0x10 != 0);
    let fam = |n: &str| FAM_NAMES.iter().position(|x| x.0 == n);
    Some(match (p[0], p.len()) {
        ("t", 3) => match parse_req(p[2])? {
            V::AsPath(h) => AttrC::Path { code: 2, segs: segs_of_hops(&h), flags, ext },
            V::As4Path(h) => AttrC::Path { code: 17, segs: segs_of_hops(&h), flags, ext },
            v => AttrC::Val { v, flags, ext },
        },
        ("p", 4) => {
            let code = match p[2] { "2" => 2u8, "17" => 17, _ => return None };
            let segs = if p[3] == "-" { vec![] } else {
                p[3].split(',').map(|sg| {
                    let (t, a) = sg.split_once(':')?;
                    if a.contains(':') { return None; }
                    let asns: Option<Vec<u32>> = if a.is_empty() { Some(vec![]) } else { a.split('.').map(|x| if !x.is_empty() && x.bytes().all(|c| c.is_ascii_digit()) { x.parse::<u32>().ok() } else { None }).collect() };
                    Some((parse_u8(t)?, asns?))
                }).collect::<Option<Vec<_>>>()?
            };
            AttrC::Path { code, segs, flags, ext }
        }
        ("r", 4) => AttrC::Raw { flags, code: parse_u8(p[2])?, ext, value: unhex_strict(p[3])? },
        ("m", 5) => { let f = fam(p[2])?; AttrC::Reach { flags, ext, fam: f, nh: unhex_strict(p[3])?, rsv: 0, nlri: parse_items(fam_shape(f), p[4])? } }
        ("m", 6) => { let f = fam(p[2])?; AttrC::Reach { flags, ext, fam: f, nh: unhex_strict(p[3])?, rsv: parse_u8(p[5])?, nlri: parse_items(fam_shape(f), p[4])? } }
        ("M", 6) => { let (afi, safi) = parse_key(p[2])?; AttrC::ReachU { flags, ext, afi, safi, nh: unhex_strict(p[3])?, rsv: parse_u8(p[4])?, body: unhex_strict(p[5])? } }
        ("U", 4) => { let (afi, safi) = parse_key(p[2])?; AttrC::UnreachU { flags, ext, afi, safi, body: unhex_strict(p[3])? } }
        ("u", 4) => { let f = fam(p[2])?; AttrC::Unreach { flags, ext, fam: f, nlri: parse_items(fam_shape(f), p[3])? } }
        _ => return None,
    })
}

pub(crate) fn parse_spec(w: &[&str]) -> Option<(Cfg, Content)> {
    if w.len() != 5 || w[0] != "enc" { return None; }
    let cfg = crate::props::c02::parse_cfg(w[1])?;
    let wd = parse_items(Shape::Pfx, w[2])?;
    let attrs = if w[3] == "-" { vec![] } else { w[3].split('|').map(parse_attr).collect::<Option<Vec<_>>>()? };
    let ann = parse_items(Shape::Pfx, w[4])?;
    Some((cfg, Content { wd, attrs, ann }))
}

/// RFC 7911: the path identifier is on the wire exactly when ADD-PATH is on for the family
fn with_pids(cfg: &Cfg, k: (u16, u8), l: &mut [Val]) {
    let ap = cfg_rx(cfg, k);
    for v in l.iter_mut() { v.pid = if ap { Some(v.pid.unwrap_or(0)) } else { None }; }
}

/// `enc`: the reference encoding of the content the line describes
fn exec_enc(line: &str) -> String {
    let w: Vec<&str> = line.split(' ').collect();
    let Some((cfg, mut c)) = parse_spec(&w) else { return "bad-op".into() };
    with_pids(&cfg, (1, 1), &mut c.wd);
    with_pids(&cfg, (1, 1), &mut c.ann);
    for a in c.attrs.iter_mut() {
        match a {
            AttrC::Reach { fam, nlri, .. } | AttrC::Unreach { fam, nlri, .. } => with_pids(&cfg, FAM_NAMES[*fam].1, nlri),
            // a two-octet AS_PATH cannot carry a larger AS number (RFC 6793: AS_TRANS is the sender's business)
            AttrC::Path { code: 2, segs, .. } if !cfg.0 && segs.iter().any(|(_, a)| a.iter().any(|x| *x > 0xffff)) => return "err".into(),
            _ => {}
        }
    }
    format!("ok {}", hex(&ref_encode(&cfg, &c)))
}

/// the `enc` request of a generated content; the request must denote the octets the `upd`
/// request of the same content carries (a harness bug otherwise)
fn enc_line(cfg: &Cfg, c: &Content, hop_form: bool) -> String {
    let l = spec_line(cfg, c, hop_form);
    assert_eq!(exec_enc(&l), format!("ok {}", hex(&ref_encode(cfg, c))), "enc request does not denote the generated content: {}", l);
    l
}

//------------ generator -------------------------------------------------------------

fn gen_nlri(rng: &mut Rng, cfg: &Cfg, fam: usize, n: usize) -> Vec<Val> {
    let ap = cfg_rx(cfg, FAM_NAMES[fam].1);
    let var = &VARIANTS[fam][if ap { 1 } else { 0 }];
    (0..n).map(|_| {
        let mut v = gen_val(rng, var);
        // large FlowSpec / EVPN bodies only now and then, so that messages stay within 4096
        if v.raw.len() > 200 && rng.chance(9, 10) { v.raw = if var.shape == Shape::Fs && !var.v6 { crate::props::c05::gen_fs_components(rng, 7) } else { rng.bytes(7) }; }
        v
    }).collect()
}

fn gen_nh(rng: &mut Rng, fam: usize) -> Vec<u8> {
    let n = match fam { 0 | 1 | 4 | 11 | 12 => 4, 6 => *rng.pick(&[16usize, 32]), 7 => 16, 2 | 8 => *rng.pick(&[4usize, 16]), 3 => 12, 9 => 24, _ => 0 };
    rng.bytes(n)
}

fn flag_noise(rng: &mut Rng, canon: u8) -> u8 {
    let mut f = canon;
    if rng.chance(1, 5) { f |= 0x20; }
    if rng.chance(1, 8) { f ^= *rng.pick(&[0x80u8, 0x40, 0x01, 0x0f]); }
    f
}

/// segments for a path attribute whose AS numbers are `four` octets wide (AS numbers above
/// 65535 only then); every other time in the form a hop path composes to (no empty and no two
/// adjacent AS_SEQUENCE segments), so that the `enc` request can give the path as hops
fn small_asn_segs(rng: &mut Rng, four: bool) -> Vec<(u8, Vec<u32>)> {
    let mut s = gen_segments(rng, !four);
    if !four { for (_, a) in s.iter_mut() { for x in a.iter_mut() { *x &= 0xffff; } } }
    if rng.bool() {
        let mut t: Vec<(u8, Vec<u32>)> = Vec::new();
        for (ty, a) in s {
            if ty == 2 && a.is_empty() { continue; }
            match t.last_mut() { Some((2, b)) if ty == 2 && a.len() + b.len() < 255 => b.extend(a), Some((2, _)) if ty == 2 => {}, _ => t.push((ty, a)) }
        }
        s = t;
    }
    s
}

/// `fam_hint`: 0..=12 an MP family, 13 conventional only, anything else a free mix
pub(crate) fn gen_case(rng: &mut Rng, fam_hint: Option<usize>, max: usize) -> (Cfg, Content) {
    // configuration: ASN width x ADD-PATH map
    let four = rng.chance(2, 3);
    let mut ap: Vec<((u16, u8), char)> = Vec::new();
    if rng.bool() { ap.push(((1, 1), *rng.pick(&['r', 'b', 's']))); }
    let mp_fam = match fam_hint { Some(f) if f < 13 => Some(f), Some(13) => None, _ => if rng.chance(2, 3) { Some(rng.usize(0, 12)) } else { None } };
    let un_fam = match mp_fam { Some(f) if rng.chance(3, 4) => Some(f), _ => if rng.chance(1, 3) { Some(rng.usize(0, 12)) } else { None } };
    for f in [mp_fam, un_fam].into_iter().flatten() { if rng.bool() { ap.push((FAM_NAMES[f].1, *rng.pick(&['r', 'b', 'b', 's']))); } }
    for _ in 0..rng.usize(0, 2) { ap.push((rng.pick(&FAM_NAMES).1, *rng.pick(&['r', 's', 'b']))); }
    if rng.chance(1, 10) { ap.push(((rng.below(40) as u16, rng.u8()), 'b')); }
    let cfg: Cfg = (four, ap);
    // sections
    // (now and then a large section: many NLRI survive only where the size limit is 4096)
    let nconv = |rng: &mut Rng| match rng.below(5) { 0 | 1 => 0, 2 => 1, _ => if max > 1000 && rng.chance(1, 12) { rng.usize(30, 400) } else { rng.usize(0, 8) } };
    let k = nconv(rng); let wd = gen_nlri(rng, &cfg, 0, k);
    let k = nconv(rng); let ann = gen_nlri(rng, &cfg, 0, k);
    let mut attrs: Vec<AttrC> = Vec::new();
    let nkinds = match rng.below(4) { 0 => 0, 1 => rng.usize(1, 3), _ => rng.usize(0, 12) };
    let mut kinds: Vec<u64> = (0..20).collect();
    for i in (1..kinds.len()).rev() { let j = rng.usize(0, i); kinds.swap(i, j); }
    // now and then an attribute type occurs twice (RFC 7606 3.g: all but the first are to be
    // discarded - the getters report the first; the attribute sequence reports both)
    let mut seq: Vec<u64> = Vec::new();
    for kind in kinds.into_iter().take(nkinds) { seq.push(kind); if rng.chance(1, 12) { seq.push(kind); } }
    for kind in seq {
        if kind == 1 || kind == 11 {
            let code = if kind == 1 { 2 } else { 17 };
            let segs = small_asn_segs(rng, four || code == 17);
            let n = ref_encode_path(&segs, code == 17 || four).len();
            attrs.push(AttrC::Path { code, segs, flags: flag_noise(rng, 0x40 | if code == 17 { 0x80 } else { 0 }), ext: n > 255 || rng.chance(1, 5) });
        } else {
            let mut v = gen_value(rng, kind);
            if let V::Aggregator(a, _) = &mut v { if !four { *a &= 0xffff; } }
            let n = v.ref_value().unwrap().len();
            if n > 1000 { continue; }
            let canon = canon_flags(v.code()).unwrap();
            attrs.push(AttrC::Val { v, flags: flag_noise(rng, canon), ext: n > 255 || rng.chance(1, 5) });
        }
    }
    for _ in 0..rng.below(3) {
        let code = loop { let c = rng.u8(); if canon_flags(c).is_none() && c != 14 && c != 15 && !attrs.iter().any(|a| attr_code(a) == c) { break c; } };
        let n = match rng.below(4) { 0 => 0, 1 => 255, 2 => 256, _ => rng.usize(0, 20) };
        attrs.push(AttrC::Raw { flags: rng.u8() & 0xe0, code, ext: n > 255 || rng.chance(1, 4), value: rng.bytes(n) });
        if rng.chance(1, 12) { let n = rng.usize(0, 9); attrs.push(AttrC::Raw { flags: rng.u8() & 0xe0, code, ext: rng.chance(1, 4), value: rng.bytes(n) }); }
    }
    // the repeated ones are not always next to each other
    if attrs.len() > 2 && rng.chance(1, 2) { let i = rng.usize(0, attrs.len() - 1); let a = attrs.remove(i); let j = rng.usize(0, attrs.len()); attrs.insert(j, a); }
    let nmp = |rng: &mut Rng| match rng.below(6) { 0 => 0, 1 => 1, _ => if max > 1000 && rng.chance(1, 12) { rng.usize(20, 150) } else { rng.usize(1, 6) } };
    if let Some(f) = mp_fam {
        let k = nmp(rng); let nlri = gen_nlri(rng, &cfg, f, k);
        let pos = rng.usize(0, attrs.len());
        attrs.insert(pos, AttrC::Reach { flags: flag_noise(rng, 0x80), ext: true, fam: f, nh: gen_nh(rng, f), rsv: 0, nlri });
    }
    if let Some(f) = un_fam {
        let k = nmp(rng); let nlri = gen_nlri(rng, &cfg, f, k);
        let pos = rng.usize(0, attrs.len());
        attrs.insert(pos, AttrC::Unreach { flags: flag_noise(rng, 0x80), ext: true, fam: f, nlri });
    }
    // the MP attributes use the short length form when they fit and the coin says so
    for a in attrs.iter_mut() {
        let n = attr_value(four, a).len();
        if let AttrC::Reach { ext, .. } | AttrC::Unreach { ext, .. } = a { *ext = n > 255 || rng.chance(1, 3); }
    }
    // an MP attribute that occurs twice occurs with the same content (the decoder takes the NLRI
    // from the first and the section's ADD-PATH flag from the family of the last)
    if rng.chance(1, 12) {
        if let Some(i) = attrs.iter().position(|a| matches!(a, AttrC::Reach { .. } | AttrC::Unreach { .. })) {
            let a = attrs[i].clone(); let j = rng.usize(0, attrs.len()); attrs.insert(j, a);
        }
    }
    let mut c = Content { wd, attrs, ann };
    // keep within the PDU limit: drop attributes / NLRI until it fits
    while ref_encode(&cfg, &c).len() > max {
        if !c.attrs.is_empty() && rng.chance(2, 3) { let i = rng.usize(0, c.attrs.len() - 1); c.attrs.remove(i); }
        else if !c.ann.is_empty() { c.ann.pop(); } else if !c.wd.is_empty() { c.wd.pop(); } else if !c.attrs.is_empty() { c.attrs.remove(0); } else { break; }
    }
    (cfg, c)
}

/// a message filled up to exactly `target` octets with conventional /32 announcements
fn gen_full(rng: &mut Rng, target: usize) -> (Cfg, Content) {
    let (cfg, mut c) = gen_case(rng, Some(13), 600);
    fill_to(rng, &cfg, &mut c, target);
    (cfg, c)
}

/// conventional announcements appended until the encoding has exactly `target` octets
/// (/32s, then shorter prefixes for the remainder. With ADD-PATH an NLRI has 5 .. 9 octets: the /32s stop
/// early enough for the remainder to be one or two shorter prefixes; a remainder of 1 .. 4 octets, which no
/// NLRI fills, becomes an unrecognised optional transitive attribute of that size (3 octets and up) or value
/// octets of the last unrecognised attribute there is (1, 2). Whatever cannot be filled even so is left.)
fn fill_to(rng: &mut Rng, cfg: &Cfg, c: &mut Content, target: usize) {
    let cfg = cfg.clone();
    let ap = cfg_rx(&cfg, (1, 1));
    let per = if ap { 9 } else { 5 };
    let base = if ap { 5 } else { 1 };
    let mut have = ref_encode(&cfg, c).len();
    // independent of ADD-PATH: a remainder below the smallest NLRI goes into the attribute section
    if have < target && target - have < base {
        let room = target - have;
        if room >= 3 {
            let code = (200..=255u8).rev().find(|x| canon_flags(*x).is_none() && !c.attrs.iter().any(|a| attr_code(a) == *x));
            if let Some(code) = code { c.attrs.push(AttrC::Raw { flags: 0xc0, code, ext: false, value: rng.bytes(room - 3) }); have += room; }
        } else if let Some(AttrC::Raw { ext, value, .. }) = c.attrs.iter_mut().rev().find(|a| matches!(a, AttrC::Raw { .. })) {
            if (*ext && value.len() + room <= 65535) || value.len() + room <= 255 { value.extend(rng.bytes(room)); have += room; }
        }
    }
    while have + per + (per - 4) <= target || have + per == target {
        c.ann.push(Val { pid: if ap { Some(rng.u32() as u64) } else { None }, plen: 32, addr: rng.bytes(4), ..Default::default() });
        have += per;
    }
    // the remainder as shorter prefixes
    loop {
        if have >= target { break; }
        let room = target - have;
        if room < base { break; }
        let mut nb = (room - base).min(4);
        // ... none of which leaves a remainder below the smallest NLRI
        let left = room - base - nb;
        if left > 0 && left < base && nb + left >= base { nb -= base - left; }
        let plen = 8 * nb as u64;
        c.ann.push(Val { pid: if ap { Some(7) } else { None }, plen, addr: crate::props::c05::gen_addr(rng, false, plen, 4), ..Default::default() });
        have += base + nb;
    }
    debug_assert_eq!(have, ref_encode(&cfg, c).len());
}

/// Reserved octet and unsupported families: now and then the MP_REACH_NLRI of a generated content gets a
/// non-zero reserved octet, or an MP attribute is replaced by one of an AFI/SAFI outside the 13 with
/// opaque octets (all copies of a repeated MP attribute alike: a repeated MP attribute repeats its content)
fn vary_mp(rng: &mut Rng, c: &mut Content) {
    let unsup = |rng: &mut Rng| loop { let k = (rng.below(300) as u16, rng.u8()); if !FAM_NAMES.iter().any(|x| x.1 == k) { break k; } };
    if rng.chance(1, 4) { let r = *rng.pick(&[1u8, 0x80, 0xff, 0x7f]); for a in c.attrs.iter_mut() { if let AttrC::Reach { rsv, .. } = a { *rsv = r; } } }
    if rng.chance(1, 10) {
        let (k, nhl, r) = (unsup(rng), *rng.pick(&[0usize, 4, 16, 3, 32, 255]), if rng.bool() { 0 } else { rng.u8() });
        let (nh, n) = (rng.bytes(nhl), match rng.below(3) { 0 => 0, 1 => 1, _ => rng.usize(1, 40) });
        let body = rng.bytes(n);
        for a in c.attrs.iter_mut() { if let AttrC::Reach { flags, .. } = a {
            let len = 5 + nh.len() + body.len();
            *a = AttrC::ReachU { flags: *flags, ext: len > 255, afi: k.0, safi: k.1, nh: nh.clone(), rsv: r, body: body.clone() }; } }
    }
    if rng.chance(1, 10) {
        let k = unsup(rng);
        let n = match rng.below(3) { 0 => 0, 1 => 1, _ => rng.usize(1, 40) };
        let body = rng.bytes(n);
        for a in c.attrs.iter_mut() { if let AttrC::Unreach { flags, ext, .. } = a { *a = AttrC::UnreachU { flags: *flags, ext: *ext, afi: k.0, safi: k.1, body: body.clone() }; } }
    }
}

/// Well-formed UPDATEs of every size class up to 65535 octets (the decoder accepts them; 4096 is the
/// framing layer's rule, RFC 4271 4.1 / RFC 8654): `kind` selects what makes the message large.
///   0 many conventional announcements           1 many withdrawals and announcements
///   2 community attributes of thousands of records (8 / 16 / 25 / 32)
///   3 AS_PATH / AS4_PATH of hundreds of segments  4 MP_REACH_NLRI / MP_UNREACH_NLRI of > 4096 octets
///   5 one unrecognised attribute whose two-octet length is as large as the message allows
///   6 CLUSTER_LIST / ATTR_SET / large opaque MP attribute of an unsupported family
/// The message is then filled to exactly `target` octets with conventional announcements (`exact`;
/// see `fill_to` for a remainder no NLRI fills).
pub(crate) fn gen_big(rng: &mut Rng, kind: usize, target: usize, exact: bool) -> (Cfg, Content) {
    let four = rng.chance(2, 3);
    let mut ap: Vec<((u16, u8), char)> = Vec::new();
    if rng.bool() { ap.push(((1, 1), 'b')); }
    let fam = rng.usize(0, 12);
    if rng.bool() { ap.push((FAM_NAMES[fam].1, *rng.pick(&['r', 'b']))); }
    let cfg: Cfg = (four, ap);
    let budget = target.saturating_sub(23 + 40);
    let mut c = Content { wd: vec![], attrs: vec![], ann: vec![] };
    let origin = AttrC::Val { v: V::Origin(rng.below(3) as u8), flags: 0x40, ext: false };
    match kind {
        0 => { c.attrs.push(origin); }
        1 => {
            // withdrawn routes for one half of the budget, announcements for the other, counted in encoded octets
            let take = |rng: &mut Rng, room: usize| -> Vec<Val> {
                let mut l: Vec<Val> = Vec::new(); let mut used = 0usize;
                'full: loop { for v in gen_nlri(rng, &cfg, 0, 64) { let n = ref_enc(Shape::Pfx, &v).len(); if used + n > room { break 'full; } used += n; l.push(v); } }
                l
            };
            c.wd = take(rng, budget / 2); c.ann = take(rng, budget - budget / 2); c.attrs.push(origin);
        }
        2 => {
            let which = rng.below(4);
            let rec = [4usize, 8, 20, 12][which as usize];
            let n = budget / rec - if rng.bool() { 0 } else { rng.usize(0, (budget / rec).min(50)) };
            let v = match which {
                0 => V::Communities((0..n).map(|_| rng.u32()).collect()),
                1 => V::ExtComm((0..n).map(|_| rng.bytes(8)).collect()),
                2 => V::Ipv6ExtComm((0..n).map(|_| rng.bytes(20)).collect()),
                _ => V::LargeComm((0..n).map(|_| rng.bytes(12)).collect()),
            };
            c.attrs.push(origin);
            c.attrs.push(AttrC::Val { v, flags: 0xc0, ext: true });
            // a second, small community attribute of another kind: all_communities() chains them
            if rng.bool() { c.attrs.push(AttrC::Val { v: if which == 0 { V::LargeComm(vec![rng.bytes(12)]) } else { V::Communities(vec![rng.u32(), 0xffffff01]) }, flags: 0xc0, ext: false }); }
        }
        3 => {
            let code = if rng.chance(2, 3) { 2u8 } else { 17 };
            let w = if code == 17 || four { 4 } else { 2 };
            let mut segs: Vec<(u8, Vec<u32>)> = Vec::new();
            let mut used = 0usize;
            // hundreds of segments: mostly short ones (incl. empty ones), now and then one of 255
            loop {
                let n = match rng.below(12) { 0 => 0, 1 => 255, 2 => 254, _ => rng.usize(0, 6) };
                if used + 2 + w * n > budget { if n > 6 { continue; } break; }
                let ty = if rng.bool() { 2 } else { rng.range(1, 4) as u8 };
                segs.push((ty, (0..n).map(|_| if w == 4 && rng.chance(1, 4) { rng.u32() } else { rng.below(65536) as u32 }).collect()));
                used += 2 + w * n;
            }
            c.attrs.push(origin);
            c.attrs.push(AttrC::Path { code, segs, flags: if code == 2 { 0x40 } else { 0xc0 }, ext: true });
        }
        4 => {
            // NLRI of the family until the budget is used (an MP attribute far above 4096 octets)
            let mut take = |rng: &mut Rng, room: usize| -> Vec<Val> {
                let mut l: Vec<Val> = Vec::new(); let mut used = 0usize;
                loop {
                    let mut batch = gen_nlri(rng, &cfg, fam, 64);
                    let mut full = false;
                    for v in batch.drain(..) { let n = ref_enc(fam_shape(fam), &v).len(); if used + n > room { full = true; break; } used += n; l.push(v); }
                    if full { break; }
                }
                l
            };
            c.attrs.push(origin);
            match rng.below(3) {
                0 => { let nlri = take(rng, budget.saturating_sub(60)); c.attrs.push(AttrC::Reach { flags: 0x80, ext: true, fam, nh: gen_nh(rng, fam), rsv: if rng.bool() { 0 } else { rng.u8() }, nlri }); }
                1 => { let nlri = take(rng, budget.saturating_sub(20)); c.attrs.push(AttrC::Unreach { flags: 0x80, ext: true, fam, nlri }); }
                _ => { let a = take(rng, budget / 2 - 60); let b = take(rng, budget / 2 - 20);
                       c.attrs.push(AttrC::Unreach { flags: 0x80, ext: true, fam, nlri: b });
                       c.attrs.push(AttrC::Reach { flags: 0x90, ext: true, fam, nh: gen_nh(rng, fam), rsv: 0, nlri: a }); }
            }
        }
        5 => {
            let code = loop { let x = rng.u8(); if canon_flags(x).is_none() && x != 14 && x != 15 { break x; } };
            // flags, type, two length octets, value: the attribute section is everything but the 23 fixed octets
            c.attrs.push(AttrC::Raw { flags: rng.u8() & 0xe0, code, ext: true, value: rng.bytes(target - 23 - 4) });
        }
        _ => {
            c.attrs.push(origin);
            match rng.below(3) {
                0 => c.attrs.push(AttrC::Val { v: V::ClusterList((0..budget / 4).map(|_| rng.u32()).collect()), flags: 0x80, ext: true }),
                1 => c.attrs.push(AttrC::Val { v: V::AttrSet(rng.u32(), crate::props::c02::nested_attr_set(rng.usize(1, 40), 0xc0)), flags: 0xc0, ext: true }),
                _ => { let k = loop { let k = (rng.below(300) as u16, rng.u8()); if !FAM_NAMES.iter().any(|x| x.1 == k) { break k; } };
                       let nhl = *rng.pick(&[0usize, 4, 16, 255]); let nh = rng.bytes(nhl);
                       c.attrs.push(AttrC::ReachU { flags: 0x80, ext: true, afi: k.0, safi: k.1, nh, rsv: rng.u8(), body: rng.bytes(budget / 2) });
                       c.attrs.push(AttrC::UnreachU { flags: 0x80, ext: true, afi: k.0, safi: k.1, body: rng.bytes(budget / 2 - 300) }); }
            }
        }
    }
    loop {
        let have = ref_encode(&cfg, &c).len();
        if have <= target { break; }
        let over = have - target;
        if !c.ann.is_empty() { let k = (over / 9).max(1).min(c.ann.len()); c.ann.truncate(c.ann.len() - k); }
        else if !c.wd.is_empty() { let k = (over / 9).max(1).min(c.wd.len()); c.wd.truncate(c.wd.len() - k); }
        else { c.attrs.pop(); }
    }
    // (kinds 0 and 1 are made of conventional NLRI: filled in any case, so that they land in their size class)
    if exact || kind <= 1 { fill_to(rng, &cfg, &mut c, target); }
    (cfg, c)
}

/// (kind, target, exact) of the large messages of a run: every kind in every size class, and the exact
/// boundaries 4096 / 4097 (the framing layer's limit and the first size beyond it), 65535 (the length
/// field's limit), an attribute section of 65535 - 23 octets
pub(crate) fn big_plan(rng: &mut Rng, scale: usize) -> Vec<(usize, usize, bool)> {
    let mut plan: Vec<(usize, usize, bool)> = Vec::new();
    for kind in 0..7 { for t in [4096usize, 4097, 65535] { plan.push((kind, t, true)); } }
    for kind in 0..7 { for class in [(4098usize, 8192usize), (8193, 16384), (16385, 32768), (32769, 65534)] { plan.push((kind, rng.usize(class.0, class.1), kind % 2 == 0)); } }
    plan.push((5, 65535, true)); // one attribute of 65508 value octets: the attribute section has 65535 - 23
    for _ in 0..(7 * (scale - 1)) { plan.push((rng.usize(0, 6), rng.usize(4097, 65535), rng.bool())); }
    plan
}

impl Prop for C01 {
    fn gen(&self, rng: &mut Rng, tier: Tier) -> Vec<String> {
        let scale = if tier == Tier::Thorough { 100 } else { 1 };
        let mut out = Vec::new();
        // End-of-RIB markers of every family, under plain and ADD-PATH configurations, and the
        // same with one NLRI elsewhere in the message (must not be reported as End-of-RIB)
        for f in 0..13usize { for apd in [None, Some('b'), Some('s')] { for extra in 0..4 {
            let cfg: Cfg = (extra % 2 == 0, apd.map(|d| vec![(FAM_NAMES[f].1, d)]).unwrap_or_default());
            let mut c = Content { wd: vec![], attrs: vec![AttrC::Unreach { flags: 0x80, ext: f % 2 == 0, fam: f, nlri: vec![] }], ann: vec![] };
            match extra {
                1 => c.ann = gen_nlri(rng, &cfg, 0, 1),
                2 => c.wd = gen_nlri(rng, &cfg, 0, 1),
                3 => { let g = (f + 1) % 13; let nlri = gen_nlri(rng, &cfg, g, 1); c.attrs.insert(rng.usize(0, 1), AttrC::Reach { flags: 0x80, ext: false, fam: g, nh: gen_nh(rng, g), rsv: 0, nlri }); }
                _ => {}
            }
            out.push(case_line(&cfg, &c));
            out.push(enc_line(&cfg, &c, extra % 2 == 1));
        } } }
        // MP_UNREACH_NLRI of families outside the 13 (whose iterator yields nothing whatever the attribute
        // holds): with withdrawn routes it is no End-of-RIB (F22b); without, it is that family's marker or none
        for (afi, safi) in [(1u16, 5u8), (1, 3), (1, 129), (2, 129), (3, 1), (25, 66), (16388, 71), (0, 0), (65535, 255), (1, 134), (2, 5)] {
            for variant in 0..6 {
                let mut cfg: Cfg = (variant % 2 == 0, if variant >= 3 { vec![((afi, safi), 'b')] } else { vec![] });
                let body = match variant { 0 => vec![], 1 => vec![0x18, 10, 0, 0], 2 => vec![0], 3 => rng.bytes(1), 4 => { let n = rng.usize(2, 40); rng.bytes(n) } _ => vec![] };
                let mut c = Content { wd: vec![], attrs: vec![AttrC::UnreachU { flags: 0x80, ext: variant == 2, afi, safi, body }], ann: vec![] };
                if variant == 5 {
                    // an empty one next to something that carries NLRI, or next to other attributes
                    match rng.below(4) {
                        0 => c.ann = gen_nlri(rng, &cfg, 0, 1),
                        1 => c.wd = gen_nlri(rng, &cfg, 0, 1),
                        2 => { let g = rng.usize(0, 12); let nlri = gen_nlri(rng, &cfg, g, 1); c.attrs.insert(rng.usize(0, 1), AttrC::Reach { flags: 0x80, ext: false, fam: g, nh: gen_nh(rng, g), rsv: 0, nlri }); }
                        _ => c.attrs.insert(rng.usize(0, 1), AttrC::Val { v: gen_value(rng, 0), flags: 0x40, ext: false }),
                    }
                    if rng.bool() { cfg.1.push(((1, 1), 'b')); for v in c.wd.iter_mut().chain(c.ann.iter_mut()) { v.pid = Some(v.pid.unwrap_or(3)); } }
                }
                out.push(case_line(&cfg, &c));
                out.push(enc_line(&cfg, &c, false));
                // MP_REACH_NLRI of the same unsupported AFI/SAFI: any next-hop field, any reserved octet, opaque
                // octets - alone, next to conventional NLRI / NEXT_HOP, next to an MP_UNREACH_NLRI of a family
                let nh = match variant { 0 => vec![], 1 => vec![10, 0, 0, 1], 2 => rng.bytes(16), 3 => rng.bytes(255), 4 => rng.bytes(32), _ => rng.bytes(3) };
                let body = match variant { 0 => vec![], 1 => vec![0x18, 10, 0, 0], _ => { let n = rng.usize(0, 40); rng.bytes(n) } };
                let len = 5 + nh.len() + body.len();
                let mut c = Content { wd: vec![], attrs: vec![AttrC::ReachU { flags: 0x80, ext: len > 255 || variant == 2, afi, safi, nh, rsv: [0u8, 1, 0xff, 0x80, 0, 7][variant], body }], ann: vec![] };
                match variant {
                    1 => { c.ann = gen_nlri(rng, &cfg, 0, 2); c.attrs.push(AttrC::Val { v: V::NextHop(0x0a000001), flags: 0x40, ext: false }); }
                    2 => c.wd = gen_nlri(rng, &cfg, 0, 1),
                    4 => { let g = rng.usize(0, 12); let k = rng.usize(0, 2); let nlri = gen_nlri(rng, &cfg, g, k); c.attrs.insert(rng.usize(0, 1), AttrC::Unreach { flags: 0x80, ext: false, fam: g, nlri }); }
                    5 => c.attrs.insert(0, AttrC::UnreachU { flags: 0x80, ext: false, afi, safi, body: vec![] }),
                    _ => {}
                }
                out.push(case_line(&cfg, &c));
                out.push(enc_line(&cfg, &c, false));
            }
        }
        // the reserved octet of an MP_REACH_NLRI of each of the 13 families: every value class, with and without NLRI
        for f in 0..13usize { for (i, rsv) in [1u8, 0x7f, 0x80, 0xff].into_iter().enumerate() {
            let cfg: Cfg = (i % 2 == 0, if i >= 2 { vec![(FAM_NAMES[f].1, 'b')] } else { vec![] });
            let k = rng.usize(0, 3); let nlri = gen_nlri(rng, &cfg, f, k);
            let c = Content { wd: vec![], attrs: vec![AttrC::Val { v: V::Origin(0), flags: 0x40, ext: false }, AttrC::Reach { flags: 0x80, ext: true, fam: f, nh: gen_nh(rng, f), rsv, nlri }], ann: vec![] };
            out.push(case_line(&cfg, &c));
            out.push(enc_line(&cfg, &c, false));
        } }
        // ... and in free mixes: the MP_UNREACH_NLRI of a generated content replaced by one of an unsupported family
        for i in 0..(150 * scale) {
            let (cfg, mut c) = gen_case(rng, Some(i % 16), 300);
            let k = loop { let k = (rng.below(300) as u16, rng.u8()); if !FAM_NAMES.iter().any(|x| x.1 == k) { break k; } };
            let n = match rng.below(3) { 0 => 0, 1 => 1, _ => rng.usize(1, 30) };
            let u = AttrC::UnreachU { flags: flag_noise(rng, 0x80), ext: rng.chance(1, 3), afi: k.0, safi: k.1, body: rng.bytes(n) };
            // (in place of it: two MP_UNREACH_NLRI of different content are no well-formed UPDATE)
            c.attrs.retain(|a| attr_code(a) != 15);
            let j = rng.usize(0, c.attrs.len()); c.attrs.insert(j, u);
            if ref_encode(&cfg, &c).len() <= 4096 { out.push(case_line(&cfg, &c)); out.push(enc_line(&cfg, &c, i % 2 == 0)); }
        }
        out.push(case_line(&(true, vec![]), &Content { wd: vec![], attrs: vec![], ann: vec![] }));
        out.push(case_line(&(false, vec![((1, 1), 'b')]), &Content { wd: vec![], attrs: vec![], ann: vec![] }));
        out.push(enc_line(&(false, vec![((1, 1), 'b')]), &Content { wd: vec![], attrs: vec![], ann: vec![] }, false));
        out.push("enc 4 - t~64~origin -".into());
        out.push("enc 4 p=8 - -".into());
        out.push("enc 5 - - -".into());
        // every family x ADD-PATH x ASN width, free mixes, sizes up to 300
        for i in 0..(5000 * scale) {
            let (cfg, mut c) = gen_case(rng, Some(i % 16), if i % 7 == 0 { 4096 } else { 400 });
            vary_mp(rng, &mut c);
            out.push(case_line(&cfg, &c));
            // the same content as an `enc` request (AS paths as hop paths in every second, where the segments allow it)
            out.push(enc_line(&cfg, &c, i % 2 == 0));
        }
        // sizes at the PDU limit
        for t in [4096usize, 4095, 4094, 4090, 4000, 2048] { for _ in 0..(2 * scale) { let (cfg, c) = gen_full(rng, t); out.push(case_line(&cfg, &c)); out.push(enc_line(&cfg, &c, false)); } }
        // every size class up to 65535 octets (the decoder accepts them: 4096 is the framing layer's rule), large
        // for every structural reason; the exact boundaries 4096 / 4097 / 65535; attribute section 65535 - 23
        for (kind, target, exact) in big_plan(rng, scale) {
            let (cfg, c) = gen_big(rng, kind, target, exact);
            out.push(case_line(&cfg, &c));
            out.push(enc_line(&cfg, &c, false));
        }
        // the same octets under the three other width / conventional ADD-PATH configurations:
        // nothing is expected (no EXPECT token), the model has to agree and C02 judges
        for _ in 0..(300 * scale) {
            let (cfg, c) = gen_case(rng, None, 300);
            let hx = hex(&ref_encode(&cfg, &c));
            let other: Cfg = (!cfg.0, if rng.bool() { vec![((1, 1), 'b')] } else { vec![] });
            out.push(format!("upd {} {}", cfg_token(&other), hx));
        }
        out
    }

    fn exec(&self, line: &str) -> String { if line.starts_with("enc ") { exec_enc(line) } else { exec_upd(line) } }

    fn oracle(&self, line: &str, reply: &str) -> Result<(), String> {
        if reply == "bad-op" { return Ok(()); }
        if line.starts_with("enc ") {
            // the reference encoding itself is judged by the line diff against the Lean encoder;
            // here: it is a frame whose length field is the number of octets (RFC 4271 4.1)
            let Some(h) = reply.strip_prefix("ok ") else { return if reply == "err" { Ok(()) } else { Err(format!("reference encoder answered `{}`", reply)) } };
            let b = unhex(h).ok_or("reply is not hex")?;
            if b.len() < 23 || b.len() > 65535 { return Ok(()); }
            if u16::from_be_bytes([b[16], b[17]]) as usize != b.len() || b[18] != 2 { return Err("reference encoding is not a framed UPDATE".into()); }
            return Ok(());
        }
        // never a panic, never a hang, iterators and collection accessors consistent
        judge_c02(line, reply)?;
        let w: Vec<&str> = line.split(' ').collect();
        if w.len() != 5 { return Ok(()); }
        if fnv(w[2]) != w[3] { return Ok(()); } // not a generated case (edited / shrunk line)
        if !reply.starts_with("ok ") { return Err(format!("a well-formed UPDATE was not accepted: `{}`", reply)); }
        let exp = |n: &str| w[4].split('|').find_map(|e| e.strip_prefix(n).and_then(|r| r.strip_prefix('=')));
        // items of an expected section (`cw`, or `mw` = `Type:items` / `none`)
        let sect = |n: &str| -> Vec<String> {
            let v = exp(n).unwrap_or("-");
            let v = if n.starts_with('m') { if v == "none" { "-" } else { v.split_once(':').map(|x| x.1).unwrap_or("-") } } else { v };
            if v == "-" { vec![] } else { v.split(';').map(|x| x.to_string()).collect() }
        };
        let list = |v: &str| -> Vec<String> { if v == "-" { vec![] } else { v.split(';').map(|x| x.to_string()).collect() } };
        for e in w[4].split('|') {
            let (name, want) = e.split_once('=').ok_or("malformed expectation")?;
            let got = group(reply, name).ok_or(format!("group `{}` missing", name))?;
            let ok = match name {
                // the chained / collected accessors report the NLRI of both sections, each section in wire order;
                // which section comes first is not content (routecore: MP first in withdrawals(), conventional
                // first in withdrawals_vec())
                "w" | "a" | "wv" | "av" => {
                    let (mp, conv) = if name.starts_with('w') { (sect("mw"), sect("cw")) } else { (sect("ma"), sect("ca")) };
                    match if name.len() == 2 { got.strip_prefix("ok:") } else { Some(got) } {
                        Some(g) => { let g = list(g); g == [mp.clone(), conv.clone()].concat() || g == [conv, mp].concat() }
                        None => false,
                    }
                }
                // all_communities: the communities of the four kinds (each kind's order is judged by its own group)
                "all" => { let (mut a, mut b) = (list(got), list(want)); a.sort(); b.sort(); a == b }
                "eor" if want == "?" => true,
                // the marker of a family outside the 13: not recognising it is no violation, naming another family is
                "eor" if want.starts_with("-or-") => got == "-" || got == &want[4..],
                "tw" | "ta" => typed_ok(want, got),
                "attrs" => {
                    let (a, b): (Vec<&str>, Vec<&str>) = (want.split(';').collect(), got.split(';').collect());
                    a.len() == b.len() && a.iter().zip(&b).all(|(x, y)| {
                        // `F:C:L:mp:HEX`, an MP attribute: flags, code, length as encoded; presented as an unrecognised
                        // attribute (`unimpl:F:C:HEX`) it has the encoded flags, code and value octets; how else it
                        // may be presented is not content
                        let p: Vec<&str> = x.splitn(5, ':').collect();
                        if p.len() == 5 && p[3] == "mp" {
                            let head = format!("{}:{}:{}:", p[0], p[1], p[2]);
                            return match y.strip_prefix(head.as_str()) {
                                Some(owned) => match owned.strip_prefix("unimpl:") { Some(u) => u == format!("{}:{}:{}", p[0], p[1], p[4]), None => true },
                                None => false };
                        }
                        match x.strip_suffix(":*") {
                        Some(head) => y.starts_with(head) && y[head.len()..].starts_with(':'),
                        None => x == y } })
                }
                // a section of an unsupported AFI/SAFI: no NLRI was encoded, none may be reported; the type is not judged
                "mw" | "ma" if want == "*:-" => got == "none" || got.split_once(':').map(|x| x.1 == "-").unwrap_or(false),
                "fams" => { let (a, b): (Vec<&str>, Vec<&str>) = (want.split(',').collect(), got.split(',').collect());
                    a.len() == b.len() && a.iter().zip(&b).all(|(x, y)| *x == "*" || x == y) }
                // the MP next hop of an unsupported AFI/SAFI is not judged
                "mnh" if want == "*" => true,
                // next-hop kind is not content: compare the address octets (`Name:*`: the answer for Name is not judged)
                "fnh" => {
                    let parts = |s: &str| -> Vec<String> { if s == "-" { vec![] } else { s.split('&').map(|x| x.to_string()).collect() } };
                    let skip: Vec<String> = parts(want).iter().filter_map(|x| x.strip_suffix(":*").map(|n| format!("{}:", n))).collect();
                    let keep = |s: &str| -> Vec<String> { parts(s).into_iter().filter(|x| !skip.iter().any(|n| x.starts_with(n.as_str()))).collect() };
                    keep(&got.replace("multi:", "uni:")) == keep(want)
                }
                "mnh" => got.replace("multi:", "uni:") == want,
                _ => got == want,
            };
            if !ok {
                let cut = |s: &str| s.chars().take(160).collect::<String>();
                return Err(format!("`{}` reported as `{}`, the encoded content is `{}`", name, cut(got), cut(want)));
            }
        }
        Ok(())
    }

    fn nontrivial(&self, _line: &str, reply: &str) -> bool { reply.starts_with("ok") || reply == "panic" }

    fn class(&self, line: &str, reply: &str) -> String {
        let w: Vec<&str> = line.split(' ').collect();
        let cfg = w.get(1).copied().unwrap_or("");
        let width = cfg.split(',').next().unwrap_or("");
        if line.starts_with("enc ") { return format!("enc:w{}:{}", width, if reply.starts_with("ok") { "ok" } else { reply }); }
        if !reply.starts_with("ok") { return format!("w{}:{}", width, reply); }
        let ty = |n: &str| group(reply, n).map(|v| v.split(':').next().unwrap_or("").to_string()).unwrap_or_default();
        let conv = group(reply, "fams").map(|v| { let p: Vec<&str> = v.split(',').collect(); if p[0] != "-" { p[0].to_string() } else { p[1].to_string() } }).unwrap_or_default();
        format!("w{}:conv={}:reach={}:unreach={}", width, conv, ty("ma"), ty("mw"))
    }
}
