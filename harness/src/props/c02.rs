//! C02: no byte sequence can panic or hang UPDATE decoding or its accessors.
//! This file also holds the observation function shared with C01.
//!
//! request   upd CFG HEX [HASH EXPECT]
//!           CFG = `4` | `2` followed by `,AFI.SAFI.D` items (D = r | s | b): the
//!           `SessionConfig::add_addpath` calls in order
//!           (HASH EXPECT are used by C01's oracle only; see c01.rs)
//! reply     err | panic | ok GROUP | GROUP | ...
//!           one `name=value` per accessor group, each run under its own
//!           catch_unwind: a group is `panic` when an accessor in it panicked;
//!           a list ends in `+hang` when its iterator did not stop within the bound
//!           (number of octets offered + 1 items).
use crate::common::*;
use crate::props::c04::show_rc;
use crate::props::c05::{from_json, show, variant, unhex_strict};
use crate::props::c13::{join, show_hop};
use routecore::bgp::communities::Community;
use routecore::bgp::message::{SessionConfig, UpdateMessage};
use routecore::bgp::nlri::afisafi::*;
use routecore::bgp::types::{AddpathDirection, NextHop};
use std::panic::{catch_unwind, AssertUnwindSafe};

pub struct C02;

pub(crate) fn grp<F: FnOnce() -> String>(f: F) -> String {
    match catch_unwind(AssertUnwindSafe(f)) { Ok(s) => s, Err(_) => "panic".into() }
}

pub(crate) const FAM_NAMES: [(&str, (u16, u8)); 13] = [
    ("Ipv4Unicast", (1, 1)), ("Ipv4Multicast", (1, 2)), ("Ipv4MplsUnicast", (1, 4)), ("Ipv4MplsVpnUnicast", (1, 128)),
    ("Ipv4RouteTarget", (1, 132)), ("Ipv4FlowSpec", (1, 133)), ("Ipv6Unicast", (2, 1)), ("Ipv6Multicast", (2, 2)),
    ("Ipv6MplsUnicast", (2, 4)), ("Ipv6MplsVpnUnicast", (2, 128)), ("Ipv6FlowSpec", (2, 133)),
    ("L2VpnVpls", (25, 65)), ("L2VpnEvpn", (25, 70))];

pub(crate) fn afisafi_name(k: (u16, u8)) -> String {
    match FAM_NAMES.iter().find(|(_, c)| *c == k) { Some((n, _)) => n.to_string(), None => format!("U{}.{}", k.0, k.1) }
}

fn dec_nat(s: &str) -> Option<u64> {
    if s.is_empty() || s.len() > 6 || !s.bytes().all(|c| c.is_ascii_digit()) { None } else { s.parse().ok() }
}

/// CFG token -> (four-octet?, add_addpath calls)
pub(crate) fn parse_cfg(s: &str) -> Option<(bool, Vec<((u16, u8), char)>)> {
    let mut it = s.split(',');
    let four = match it.next()? { "4" => true, "2" => false, _ => return None };
    let mut v = Vec::new();
    for item in it {
        let p: Vec<&str> = item.split('.').collect();
        if p.len() != 3 { return None; }
        let (a, b) = (dec_nat(p[0])?, dec_nat(p[1])?);
        if a >= 65536 || b >= 256 { return None; }
        let d = match p[2] { "r" => 'r', "s" => 's', "b" => 'b', _ => return None };
        v.push(((a as u16, b as u8), d));
    }
    Some((four, v))
}

pub(crate) fn make_cfg(c: &(bool, Vec<((u16, u8), char)>)) -> SessionConfig {
    let mut sc = if c.0 { SessionConfig::modern() } else { SessionConfig::legacy() };
    for (k, d) in &c.1 {
        let dir = match d { 'r' => AddpathDirection::Receive, 's' => AddpathDirection::Send, _ => AddpathDirection::SendReceive };
        sc.add_addpath(AfiSafiType::from(*k), dir);
    }
    sc
}

/// reference reading of the configuration: are incoming NLRI of this family ADD-PATH? (RFC 7911)
pub(crate) fn cfg_rx(c: &(bool, Vec<((u16, u8), char)>), k: (u16, u8)) -> bool {
    matches!(c.1.iter().rev().find(|(kk, _)| *kk == k), Some((_, 'r')) | Some((_, 'b')))
}

fn nlri_type_name(t: NlriType) -> String {
    let d = format!("{:?}", t);
    match t { NlriType::Unsupported(a, s) => format!("U{}.{}", a, s), _ => d }
}
fn afisafi_type_name(t: AfiSafiType) -> String { let k: (u16, u8) = t.into(); afisafi_name(k) }

fn show_nlri(n: &Nlri<&[u8]>) -> String {
    let j = serde_json::to_value(n).unwrap();
    let (name, body) = j.as_object().unwrap().iter().next().unwrap();
    let var = variant(name).unwrap();
    show(var.shape, &from_json(var.shape, var.ap, body)).replace(' ', ",")
}

/// `bound + 1` items at most; an `Err` item is `E`
fn show_items<T, E, I: Iterator<Item = Result<T, E>>>(it: I, bound: usize, sh: impl Fn(&T) -> String) -> String {
    let mut v = Vec::new();
    let mut hang = false;
    for (i, x) in it.take(bound + 2).enumerate() {
        if i == bound + 1 { hang = true; break; }
        v.push(match x { Ok(n) => sh(&n), Err(_) => "E".to_string() });
    }
    let body = if v.is_empty() { "-".to_string() } else { v.join(";") };
    if hang { body + "+hang" } else { body }
}
fn show_plain<T, I: Iterator<Item = T>>(it: I, bound: usize, sh: impl Fn(&T) -> String) -> String {
    let mut v = Vec::new();
    let mut hang = false;
    for (i, x) in it.take(bound + 2).enumerate() {
        if i == bound + 1 { hang = true; break; }
        v.push(sh(&x));
    }
    let body = if v.is_empty() { "-".to_string() } else { v.join(";") };
    if hang { body + "+hang" } else { body }
}

fn show_nh(nh: &NextHop) -> String {
    let ip = |a: &std::net::IpAddr| match a { std::net::IpAddr::V4(a) => hex(&a.octets()), std::net::IpAddr::V6(a) => hex(&a.octets()) };
    match nh {
        NextHop::Unicast(a) => format!("uni:{}", ip(a)),
        NextHop::Multicast(a) => format!("multi:{}", ip(a)),
        NextHop::Ipv6LL(a, b) => format!("ll:{}:{}", hex(&a.octets()), hex(&b.octets())),
        NextHop::MplsVpnUnicast(rd, a) => format!("vpn:{}:{}", hex(rd.as_ref()), ip(a)),
        NextHop::Empty => "empty".into(),
        NextHop::Unimplemented(_) => "unimplemented".into(),
    }
}

fn oo<T, E>(r: Result<Option<T>, E>, sh: impl Fn(&T) -> String) -> String {
    match r { Ok(None) => "-".into(), Ok(Some(x)) => sh(&x), Err(_) => "err".into() }
}

macro_rules! typed_all {
    ($m:expr, $meth:ident, $bound:expr, [$($name:literal => $t:ty),+ $(,)?]) => {{
        let mut parts: Vec<String> = Vec::new();
        $(
            match $m.$meth::<_, $t>() {
                Ok(None) => {}
                Ok(Some(it)) => parts.push(format!("{}:{}", $name, show_items(it, $bound, |n| show_nlri(&Nlri::from(n.clone()))))),
                Err(_) => parts.push(format!("{}:err", $name)),
            }
        )+
        if parts.is_empty() { "-".to_string() } else { parts.join("&") }
    }};
}

macro_rules! typed_list {
    ($m:expr, $meth:ident, $bound:expr) => {
        typed_all!($m, $meth, $bound, [
            "Ipv4Unicast" => Ipv4UnicastNlri, "Ipv4UnicastAddpath" => Ipv4UnicastAddpathNlri,
            "Ipv4Multicast" => Ipv4MulticastNlri, "Ipv4MulticastAddpath" => Ipv4MulticastAddpathNlri,
            "Ipv4MplsUnicast" => Ipv4MplsUnicastNlri<_>, "Ipv4MplsUnicastAddpath" => Ipv4MplsUnicastAddpathNlri<_>,
            "Ipv4MplsVpnUnicast" => Ipv4MplsVpnUnicastNlri<_>, "Ipv4MplsVpnUnicastAddpath" => Ipv4MplsVpnUnicastAddpathNlri<_>,
            "Ipv4RouteTarget" => Ipv4RouteTargetNlri<_>, "Ipv4RouteTargetAddpath" => Ipv4RouteTargetAddpathNlri<_>,
            "Ipv4FlowSpec" => Ipv4FlowSpecNlri<_>, "Ipv4FlowSpecAddpath" => Ipv4FlowSpecAddpathNlri<_>,
            "Ipv6Unicast" => Ipv6UnicastNlri, "Ipv6UnicastAddpath" => Ipv6UnicastAddpathNlri,
            "Ipv6Multicast" => Ipv6MulticastNlri, "Ipv6MulticastAddpath" => Ipv6MulticastAddpathNlri,
            "Ipv6MplsUnicast" => Ipv6MplsUnicastNlri<_>, "Ipv6MplsUnicastAddpath" => Ipv6MplsUnicastAddpathNlri<_>,
            "Ipv6MplsVpnUnicast" => Ipv6MplsVpnUnicastNlri<_>, "Ipv6MplsVpnUnicastAddpath" => Ipv6MplsVpnUnicastAddpathNlri<_>,
            "Ipv6FlowSpec" => Ipv6FlowSpecNlri<_>, "Ipv6FlowSpecAddpath" => Ipv6FlowSpecAddpathNlri<_>,
            "L2VpnVpls" => L2VpnVplsNlri, "L2VpnVplsAddpath" => L2VpnVplsAddpathNlri,
            "L2VpnEvpn" => L2VpnEvpnNlri<_>, "L2VpnEvpnAddpath" => L2VpnEvpnAddpathNlri<_>,
        ])
    };
}

/// what routecore reports about `bytes` under `cfg`
pub(crate) fn observe(cfg: &SessionConfig, bytes: &Vec<u8>) -> String {
    // the other entry point of the property's observe_at list: Message::from_octets with the configuration
    // is UpdateMessage::from_octets for a type-2 header (a panic here is a panic of the request)
    let via_msg = routecore::bgp::message::Message::from_octets(&bytes[..], Some(cfg));
    let m = match UpdateMessage::from_octets(&bytes[..], cfg) {
        Ok(m) => m,
        Err(_) => return if matches!(via_msg, Ok(routecore::bgp::message::Message::Update(_))) { "entry-points-differ".into() } else { "err".into() },
    };
    match via_msg {
        Ok(routecore::bgp::message::Message::Update(u)) if u.length() == m.length() && u.as_ref() == m.as_ref() => {}
        _ => return "entry-points-differ".into(),
    }
    observe_msg(&m, bytes.len())
}

/// the observation of an already decoded message (also used by C15 on
/// `RouteMonitoring::bgp_update`); `bound` limits every iteration
pub(crate) fn observe_msg(m: &UpdateMessage<&[u8]>, bound: usize) -> String {
    let four = m.pdu_parse_info().four_octet_enabled();
    let _ = four;
    let mut g: Vec<String> = Vec::new();
    let mut put = |name: &str, v: String| g.push(format!("{}={}", name, v));
    put("len", grp(|| format!("{},{},{}", m.length(), m.withdrawn_routes_len(), m.total_path_attribute_len())));
    put("pcap", grp(|| {
        let s = m.fmt_pcap_string();
        // "000000 " + 16 x "ff " + the rest as "xx " groups
        let rest = s.strip_prefix("000000 ff ff ff ff ff ff ff ff ff ff ff ff ff ff ff ff ").expect("pcap prefix");
        let h: String = rest.split(' ').collect();
        if h.is_empty() { "-".into() } else { h }
    }));
    put("attrs", grp(|| match m.path_attributes() {
        Err(_) => "err".into(),
        Ok(pas) => show_items(pas, bound, |w| {
            let owned = match w.to_owned() { Ok(pa) => show_rc(&pa), Err(_) => "owned-err".into() };
            format!("{}:{}:{}:{}", u8::from(w.flags()), w.type_code(), w.length(), owned)
        }),
    }));
    put("cw", grp(|| match m.conventional_withdrawals() { Err(_) => "err".into(), Ok(it) => show_items(it, bound, show_nlri) }));
    put("ca", grp(|| match m.conventional_announcements() { Err(_) => "err".into(), Ok(it) => show_items(it, bound, show_nlri) }));
    put("mw", grp(|| match m.mp_withdrawals() {
        Err(_) => "err".into(), Ok(None) => "none".into(),
        Ok(Some(it)) => { let t = it.nlri_type(); assert_eq!(it.afi_safi(), t.afi_safi()); format!("{}:{}", nlri_type_name(t), show_items(it, bound, show_nlri)) }
    }));
    put("ma", grp(|| match m.mp_announcements() {
        Err(_) => "err".into(), Ok(None) => "none".into(),
        Ok(Some(it)) => { let t = it.nlri_type(); format!("{}:{}", nlri_type_name(t), show_items(it, bound, show_nlri)) }
    }));
    put("w", grp(|| match m.withdrawals() { Err(_) => "err".into(), Ok(it) => show_items(it, 2 * bound, show_nlri) }));
    put("a", grp(|| match m.announcements() { Err(_) => "err".into(), Ok(it) => show_items(it, 2 * bound, show_nlri) }));
    fn vec_s<E>(r: Result<Vec<Nlri<&[u8]>>, E>) -> String { match r {
        Err(_) => "err".to_string(),
        Ok(v) => format!("ok:{}", if v.is_empty() { "-".to_string() } else { v.iter().map(show_nlri).collect::<Vec<_>>().join(";") }),
    } }
    put("wv", grp(|| vec_s(m.withdrawals_vec())));
    put("av", grp(|| vec_s(m.announcements_vec())));
    put("tw", grp(|| typed_list!(m, typed_withdrawals, bound)));
    put("ta", grp(|| typed_list!(m, typed_announcements, bound)));
    put("fams", grp(|| {
        let (a, b, c, d) = m.afi_safis();
        let s = |x: Option<NlriType>| x.map(nlri_type_name).unwrap_or("-".into());
        // the two derived iterators must agree with the tuple
        let af: Vec<NlriType> = m.announcement_fams().collect();
        let wf: Vec<NlriType> = m.withdrawal_fams().collect();
        assert_eq!(af, [b, d].into_iter().flatten().collect::<Vec<_>>());
        assert_eq!(wf, [a, c].into_iter().flatten().collect::<Vec<_>>());
        assert_eq!(m.has_conventional_nlri(), b.is_some());
        format!("{},{},{},{}", s(a), s(b), s(c), s(d))
    }));
    put("eor", grp(|| oo(m.is_eor(), |t| afisafi_type_name(*t))));
    put("origin", grp(|| oo(m.origin(), |o| u8::from(*o).to_string())));
    put("aspath", grp(|| oo(m.aspath(), |p| format!("{}:{}", hex(p.clone().into_inner()), join(p.hops().take(100_000).map(|h| show_hop(&h)).collect())))));
    put("as4path", grp(|| oo(m.as4path(), |p| format!("{}:{}", hex(p.clone().into_inner()), join(p.hops().take(100_000).map(|h| show_hop(&h)).collect())))));
    // the three iterators of a returned AsPath, each driven to its end on its own (not through a collected
    // rendering): number of hops `hops()` yields, of segments `segments()` yields, of AS numbers the segments'
    // `asns()` yield. Each is bounded by the value's octets (C02 `hops_bounded`): `+hang` beyond that.
    put("pit", grp(|| {
        fn count<I: Iterator>(it: I, bound: usize) -> String { let n = it.take(bound + 2).count(); if n > bound + 1 { format!("{}+hang", n) } else { n.to_string() } }
        fn one<E>(r: Result<Option<routecore::bgp::aspath::AsPath<&[u8]>>, E>) -> String {
            match r { Err(_) => "err".into(), Ok(None) => "-".into(), Ok(Some(p)) => {
                let b = p.clone().into_inner().len();
                let asns = { let mut n = 0usize; let mut hang = false;
                    for (i, sg) in p.segments().enumerate() { if i > b + 1 { hang = true; break; } let k = sg.asns().take(b + 2).count(); if k > b + 1 { hang = true; break; } n += k; }
                    if hang { format!("{}+hang", n) } else { n.to_string() } };
                format!("{}.{}.{}", count(p.hops(), b), count(p.segments(), b), asns) } } }
        format!("{}/{}", one(m.aspath()), one(m.as4path()))
    }));
    put("cnh", grp(|| oo(m.conventional_next_hop(), show_nh)));
    put("mnh", grp(|| oo(m.mp_next_hop(), show_nh)));
    put("fnh", grp(|| {
        let mut parts = Vec::new();
        for k in FAM_NAMES.iter().map(|x| x.1).chain([(99u16, 9u8)]) {
            if let Ok(nh) = m.find_next_hop(AfiSafiType::from(k)) { parts.push(format!("{}:{}", afisafi_name(k), show_nh(&nh))); }
        }
        if parts.is_empty() { "-".into() } else { parts.join("&") }
    }));
    put("med", grp(|| oo(m.multi_exit_disc(), |x| x.0.to_string())));
    put("lp", grp(|| oo(m.local_pref(), |x| x.0.to_string())));
    put("atomic", grp(|| match m.is_atomic_aggregate() { Ok(b) => b.to_string(), Err(_) => "err".into() }));
    put("aggr", grp(|| oo(m.aggregator(), |a| format!("{}:{}", a.asn().into_u32(), hex(&a.address().octets())))));
    put("comm", grp(|| match m.communities() { Err(_) => "err".into(), Ok(None) => "none".into(),
        Ok(Some(it)) => {
            // the human-readable flavour iterates the same octets
            let n2 = m.human_readable_communities().ok().flatten().map(|i| i.take(bound + 2).count());
            let s = show_plain(it, bound, |c| hex(&c.to_raw()));
            if !s.ends_with("+hang") { assert_eq!(n2, Some(if s == "-" { 0 } else { s.split(';').count() })); }
            s
        } }));
    put("ext", grp(|| match m.ext_communities() { Err(_) => "err".into(), Ok(None) => "none".into(),
        Ok(Some(it)) => show_plain(it, bound, |c| hex(&c.to_raw())) }));
    put("v6ext", grp(|| match m.ipv6_ext_communities() { Err(_) => "err".into(), Ok(None) => "none".into(),
        Ok(Some(it)) => show_plain(it, bound, |c| hex(&c.to_raw())) }));
    put("large", grp(|| match m.large_communities() { Err(_) => "err".into(), Ok(None) => "none".into(),
        Ok(Some(it)) => show_plain(it, bound, |c| hex(&c.to_raw())) }));
    put("all", grp(|| {
        let n2 = m.all_human_readable_communities().ok().flatten().map(|v| v.len());
        let r = m.all_communities();
        if let Ok(x) = &r { assert_eq!(x.as_ref().map(|v| v.len()), n2); }
        oo(r, |v| v.iter().map(|c| match c {
            Community::Standard(c) => hex(&c.to_raw()), Community::Extended(c) => hex(&c.to_raw()),
            Community::Ipv6Extended(c) => hex(&c.to_raw()), Community::Large(c) => hex(&c.to_raw()),
        }).collect::<Vec<_>>().join(";"))
    }));
    // how an iterator is consumed must not matter (common::iter_protocol): `ok`, or the first consumption
    // (count / last / nth / skip / step_by / size_hint / by_ref-then-rest / peekable ..) of one of the
    // iterators above that panicked or did not observe the next() sequence
    put("proto", grp(|| proto_of_msg(m, bound)));
    format!("ok {}", g.join(" | "))
}

/// the value of group `name` in a reply
pub(crate) fn group<'a>(reply: &'a str, name: &str) -> Option<&'a str> {
    let body = reply.strip_prefix("ok ")?;
    body.split(" | ").find_map(|g| g.strip_prefix(name).and_then(|r| r.strip_prefix('=')))
}

/// Every request is decoded and observed on a thread of its own with the stack a spawned Rust thread
/// has by default (2 MiB; the run loop's main thread has the larger `ulimit -s` stack): recursion that is
/// driven by the input (e.g. nested ATTR_SETs) must not need more than any worker thread of a user has.
/// A stack overflow kills the process; the run loop keeps the index of the request in progress.txt and
/// ./check reports it as an `abort` violation with this request. A panic is passed on to the run loop.
pub(crate) fn exec_upd(line: &str) -> String {
    let l = line.to_string();
    let h = std::thread::Builder::new().stack_size(2 * 1024 * 1024).spawn(move || exec_upd_here(&l)).expect("spawn");
    match h.join() { Ok(s) => s, Err(e) => std::panic::resume_unwind(e) }
}

fn exec_upd_here(line: &str) -> String {
    let w: Vec<&str> = line.split(' ').collect();
    if !(w.len() == 3 || w.len() == 5) || w[0] != "upd" { return "bad-op".into(); }
    let (Some(c), Some(bytes)) = (parse_cfg(w[1]), unhex_strict(w[2])) else { return "bad-op".into() };
    let cfg = make_cfg(&c);
    observe(&cfg, &bytes)
}

/// items of a rendered list (without a `+hang` mark)
fn list_items(s: &str) -> Vec<&str> {
    let s = s.strip_suffix("+hang").unwrap_or(s);
    if s == "-" { vec![] } else { s.split(';').collect() }
}

/// the property C02, judged on one reply
pub(crate) fn judge_c02(line: &str, reply: &str) -> Result<(), String> {
    if reply == "bad-op" || reply == "err" { return Ok(()); }
    if reply == "panic" { return Err("UpdateMessage::from_octets / Message::from_octets panicked".into()); }
    if reply == "entry-points-differ" { return Err("Message::from_octets(octets, Some(config)) and UpdateMessage::from_octets(octets, config) do not return the same UPDATE".into()); }
    let w: Vec<&str> = line.split(' ').collect();
    let nbytes = w.get(2).map(|h| if *h == "-" { 0 } else { h.len() / 2 }).unwrap_or(0);
    let body = reply.strip_prefix("ok ").ok_or("malformed reply")?;
    for g in body.split(" | ") {
        let (name, val) = g.split_once('=').ok_or("malformed group")?;
        if val == "panic" || val.ends_with(":panic") { return Err(format!("accessor group `{}` panicked on an accepted message", name)); }
        if val.contains("+hang") { return Err(format!("iterator of group `{}` yields more items than the message has octets", name)); }
        if name == "proto" { proto_judge(g)?; }
    }
    // an item-level error is the last item of its section's iterator; item counts are bounded
    let check_list = |name: &str, s: &str| -> Result<(), String> {
        let items = list_items(s);
        if items.len() > nbytes { return Err(format!("`{}` yields {} items from a message of {} octets", name, items.len(), nbytes)); }
        if let Some(i) = items.iter().position(|x| *x == "E") {
            if i + 1 != items.len() { return Err(format!("`{}`: an Err item is followed by {} more items", name, items.len() - i - 1)); }
        }
        Ok(())
    };
    let sect = |name: &str| -> Result<Option<String>, String> {
        let v = group(reply, name).ok_or(format!("group {} missing", name))?;
        Ok(match v { "none" | "err" => None, _ => Some(v.split_once(':').map(|x| x.1).unwrap_or(v).to_string()) })
    };
    for n in ["cw", "ca"] { check_list(n, group(reply, n).ok_or("group missing")?)?; }
    for n in ["mw", "ma"] { if let Some(l) = sect(n)? { check_list(n, &l)?; } }
    for n in ["tw", "ta"] {
        let v = group(reply, n).ok_or("group missing")?;
        if v != "-" { for part in v.split('&') { let (nm, l) = part.split_once(':').ok_or("typed part")?; if l != "err" { check_list(&format!("{}:{}", n, nm), l)?; } } }
    }
    for n in ["attrs", "comm", "ext", "v6ext", "large"] {
        let v = group(reply, n).ok_or("group missing")?;
        if v != "none" && v != "err" { let k = list_items(v).len(); if k > nbytes { return Err(format!("`{}` yields {} items", n, k)); } }
    }
    // the attribute iterator is a section iterator too: an Err item (none occurs on an accepted message as
    // the code stands) has to be its last
    { let v = group(reply, "attrs").ok_or("group missing")?; if v != "err" { check_list("attrs", v)?; } }
    // the combined iterators chain the two section iterators – each part ends at its own first Err; which
    // section comes first is not fixed by the statement (routecore: MP, then conventional)
    for (comb, mp, conv) in [("w", "mw", "cw"), ("a", "ma", "ca")] {
        let c = group(reply, comb).ok_or("group missing")?;
        let mpv = group(reply, mp).ok_or("group missing")?;
        if mpv == "err" { if c != "err" { return Err(format!("`{}` is not an error although `{}` is", comb, mp)); } continue; }
        let a: Vec<String> = sect(mp)?.map(|l| list_items(&l).iter().map(|s| s.to_string()).collect()).unwrap_or_default();
        let b: Vec<String> = list_items(group(reply, conv).unwrap()).iter().map(|s| s.to_string()).collect();
        let got: Vec<String> = list_items(c).iter().map(|s| s.to_string()).collect();
        if got != [a.clone(), b.clone()].concat() && got != [b, a].concat() { return Err(format!("`{}` does not yield the items of the MP and of the conventional section iterator", comb)); }
    }
    // the all-or-nothing accessors agree with the iterators
    for (vec, conv, mp) in [("wv", "cw", "mw"), ("av", "ca", "ma")] {
        let v = group(reply, vec).ok_or("group missing")?;
        let mpv = group(reply, mp).ok_or("group missing")?;
        let items: Vec<String> = list_items(group(reply, conv).unwrap()).iter().map(|s| s.to_string()).collect();
        let mut mpi: Vec<String> = Vec::new();
        if let Some(l) = sect(mp)? { mpi.extend(list_items(&l).iter().map(|s| s.to_string())); }
        let any_err = mpv == "err" || items.iter().chain(mpi.iter()).any(|x| x == "E");
        match (any_err, v.strip_prefix("ok:")) {
            (true, None) if v == "err" => {}
            (false, Some(l)) => {
                // (either section first: the statement fixes no order between the sections)
                let got: Vec<String> = list_items(l).iter().map(|s| s.to_string()).collect();
                if got != [items.clone(), mpi.clone()].concat() && got != [mpi, items].concat() { return Err(format!("`{}` returned a different sequence than the iterators yield", vec)); }
            }
            (true, _) => return Err(format!("`{}` returned Ok although an iterator item is an error", vec)),
            (false, _) => return Err(format!("`{}` returned Err although every iterator item is Ok", vec)),
        }
    }
    // ... and so does the collection of all communities: every item the four community iterators yield,
    // nothing else (judged as a multiset: the statement fixes no order between the kinds)
    {
        let all = group(reply, "all").ok_or("group missing")?;
        let mut want: Vec<String> = Vec::new();
        let mut any_err = false;
        for n in ["comm", "ext", "v6ext", "large"] {
            match group(reply, n).ok_or("group missing")? {
                "err" => any_err = true,
                "none" => {}
                l => want.extend(list_items(l).iter().map(|s| s.to_string())),
            }
        }
        if !reply.contains("+hang") {
            match (any_err, all) {
                (true, "err") => {}
                (true, _) => return Err("`all_communities` returned Ok although a community accessor is an error".into()),
                (false, "err") => return Err("`all_communities` returned Err although every community accessor is Ok".into()),
                (false, l) => {
                    // `-` is `Ok(None)`
                    let mut got: Vec<String> = list_items(l).iter().filter(|s| !s.is_empty()).map(|s| s.to_string()).collect();
                    got.sort(); want.sort();
                    if got != want { return Err(format!("`all_communities` holds {} communities but the four community iterators yield {} (or different ones)", got.len(), want.len())); }
                    if (l == "-") != want.is_empty() { return Err("`all_communities` must be None exactly when no community iterator yields an item".into()); }
                }
            }
        }
    }
    Ok(())
}

//------------ malformed stream ---------------------------------------------------

pub(crate) fn gen_cfg(rng: &mut Rng) -> String {
    let mut s = String::from(if rng.chance(3, 4) { "4" } else { "2" });
    let n = match rng.below(4) { 0 => 0, 1 => 1, _ => rng.usize(0, 6) };
    for _ in 0..n {
        let k = if rng.chance(1, 8) { (rng.below(30) as u16, rng.u8()) } else { rng.pick(&FAM_NAMES).1 };
        s.push_str(&format!(",{}.{}.{}", k.0, k.1, rng.pick(&['r', 's', 'b', 'b'])));
    }
    s
}

pub(crate) fn rb(rng: &mut Rng, lo: usize, hi: usize) -> Vec<u8> { let n = rng.usize(lo, hi); rng.bytes(n) }

fn header(total: usize, ty: u8) -> Vec<u8> {
    let mut m = vec![0xffu8; 16];
    m.extend((total as u16).to_be_bytes());
    m.push(ty);
    m
}

/// grammar-derived message whose length fields are chosen adversarially
fn gen_grammar(rng: &mut Rng) -> Vec<u8> {
    let adv = |rng: &mut Rng, real: usize| -> usize {
        match rng.below(24) { 0 => 0, 1 => 1, 2 => 0xffff, 3 => real + 1, 4 => real.saturating_sub(1), 5 => rng.usize(0, 40), _ => real }
    };
    let nlri = |rng: &mut Rng, n: usize| -> Vec<u8> {
        let mut o = Vec::new();
        for _ in 0..n {
            if rng.chance(1, 3) { o.extend(rng.bytes(4)); }
            let l = if rng.chance(1, 6) { rng.u8() } else { rng.below(33) as u8 };
            o.push(l);
            let k = (l as usize + 7) / 8;
            let mut a = rng.bytes(k.min(5));
            if rng.chance(3, 4) && l % 8 != 0 { if let Some(x) = a.last_mut() { *x &= 0xffu8 << (8 - l % 8); } }
            o.extend(a);
        }
        o
    };
    let k = rng.usize(0, 3); let wd = nlri(rng, k);
    let mut attrs = Vec::new();
    for _ in 0..rng.usize(0, 5) {
        let code = *rng.pick(&[1u8, 2, 3, 4, 5, 6, 7, 8, 9, 10, 14, 14, 15, 15, 16, 17, 18, 25, 32, 35, 99, 128, 255]);
        let mut val = match code {
            14 => { let k = rng.pick(&FAM_NAMES).1; let mut v = k.0.to_be_bytes().to_vec(); v.push(k.1);
                    let nl = *rng.pick(&[0usize, 4, 12, 16, 24, 32, 5]); v.push(adv(rng, nl) as u8); v.extend(rng.bytes(nl)); v.push(0);
                    v.extend(rb(rng, 0, 24)); v }
            15 => { let k = rng.pick(&FAM_NAMES).1; let mut v = k.0.to_be_bytes().to_vec(); v.push(k.1); v.extend(rb(rng, 0, 24)); v }
            // one to three segments, now and then one of 255 AS numbers (two or four octets each)
            2 | 17 => { let mut v = Vec::new(); for _ in 0..*rng.pick(&[1usize, 1, 1, 2, 3]) {
                    let n = if rng.chance(1, 30) { 255 } else { rng.usize(0, 4) };
                    v.push(rng.below(6) as u8); v.push(adv(rng, n) as u8); let w = *rng.pick(&[4usize, 4, 2]); v.extend(rng.bytes(w * n)); } v }
            8 | 16 | 25 | 32 => { let k = match code { 8 => 4, 16 => 8, 25 => 20, _ => 12 }; { let n = k * rng.usize(0, 3) + *rng.pick(&[0usize, 0, 0, 0, 1, 2, 4, 6, 8, 10, 16]); rng.bytes(n) } }
            // (now and then a value that needs the extended length form)
            _ => if rng.chance(1, 25) { rb(rng, 250, 700) } else { rb(rng, 0, 9) },
        };
        if rng.chance(1, 10) { val.truncate(rng.usize(0, val.len())); }
        let ext = rng.chance(1, 4) || (val.len() > 255 && rng.chance(5, 6));
        let fl = (rng.u8() & 0xe0) | if ext { 0x10 } else { 0 } | if rng.chance(1, 8) { rng.u8() & 0x0f } else { 0 };
        attrs.push(fl); attrs.push(code);
        let l = adv(rng, val.len());
        if ext { attrs.extend((l as u16).to_be_bytes()); } else { attrs.push(l as u8); }
        attrs.extend(val);
    }
    let k = rng.usize(0, 3); let ann = nlri(rng, k);
    let mut body = Vec::new();
    body.extend((adv(rng, wd.len()) as u16).to_be_bytes()); body.extend(&wd);
    body.extend((adv(rng, attrs.len()) as u16).to_be_bytes()); body.extend(&attrs);
    body.extend(&ann);
    let total = 19 + body.len();
    let total = match rng.below(12) { 0 => 0, 1 => 18, 2 => 19, 3 => 22, 4 => 23, 5 => total + 1, 6 => total.saturating_sub(1), 7 => 0xffff, _ => total };
    let mut m = header(total, if rng.chance(1, 12) { rng.u8() } else { 2 });
    if rng.chance(1, 20) { let i = rng.usize(0, 15); m[i] = rng.u8(); }
    m.extend(body);
    if rng.chance(1, 8) { m.extend(rb(rng, 1, 8)); }
    m
}

/// ATTR_SET (type 128, RFC 6368: four octets origin AS, then path attributes) nested `depth` deep with
/// consistent lengths, the innermost set holding an ORIGIN; extended length where the value needs it
pub(crate) fn nested_attr_set(depth: usize, flags: u8) -> Vec<u8> {
    let mut inner: Vec<u8> = vec![0x40, 1, 1, 0];
    for _ in 0..depth {
        let mut v = vec![0, 0, 0xfd, 0xe8];
        v.extend(&inner);
        let mut a = Vec::with_capacity(v.len() + 4);
        if v.len() > 255 { a.push(flags | 0x10); a.push(128); a.extend((v.len() as u16).to_be_bytes()); } else { a.push(flags & 0xef); a.push(128); a.push(v.len() as u8); }
        a.extend(v);
        inner = a;
    }
    inner
}

/// an UPDATE whose path attributes are `attrs`, announcing 10.0.0.0/8 (no length field lies)
pub(crate) fn framed(attrs: &[u8]) -> Vec<u8> {
    let total = 19 + 2 + 2 + attrs.len() + 2;
    let mut m = header(total.min(0xffff), 2);
    m.extend([0, 0]); m.extend((attrs.len() as u16).to_be_bytes()); m.extend(attrs); m.extend([8, 10]);
    m
}

/// offsets of the section length fields of a well-formed message: (wd len, attr len)
fn sections(m: &[u8]) -> Option<(usize, usize, usize)> {
    if m.len() < 23 { return None; }
    let wl = u16::from_be_bytes([m[19], m[20]]) as usize;
    let ao = 21 + wl;
    if m.len() < ao + 2 { return None; }
    let al = u16::from_be_bytes([m[ao], m[ao + 1]]) as usize;
    if m.len() < ao + 2 + al { return None; }
    Some((wl, ao, al))
}

pub(crate) fn mutate(rng: &mut Rng, mut m: Vec<u8>, other: &[u8]) -> Vec<u8> {
    match rng.below(12) {
        0 | 1 => { if !m.is_empty() { let i = rng.usize(0, m.len() - 1); m[i] ^= 1 << rng.below(8); } }
        2 => { // a length-looking octet to 0 / 1 / max / +-1
            if m.len() > 19 { let i = rng.usize(16, m.len() - 1);
                m[i] = match rng.below(5) { 0 => 0, 1 => 1, 2 => 0xff, 3 => m[i].wrapping_add(1), _ => m[i].wrapping_sub(1) }; } }
        3 => { // the section length fields
            if let Some((_, ao, _)) = sections(&m) { let o = if rng.bool() { 19 } else { ao };
                let v = match rng.below(5) { 0 => 0u16, 1 => 1, 2 => 0xffff, 3 => u16::from_be_bytes([m[o], m[o + 1]]).wrapping_add(1), _ => u16::from_be_bytes([m[o], m[o + 1]]).wrapping_sub(1) };
                m[o..o + 2].copy_from_slice(&v.to_be_bytes()); } }
        4 => { // header length
            if m.len() >= 18 { let cur = u16::from_be_bytes([m[16], m[17]]);
                let v = match rng.below(7) { 0 => 0u16, 1 => 18, 2 => 19, 3 => 23, 4 => 0xffff, 5 => cur.wrapping_add(1), _ => cur.wrapping_sub(1) };
                m[16..18].copy_from_slice(&v.to_be_bytes()); } }
        5 => { let k = rng.usize(0, m.len()); m.truncate(k); if rng.bool() && m.len() >= 18 { let l = m.len() as u16; m[16..18].copy_from_slice(&l.to_be_bytes()); } }
        6 => { // swap the withdrawn and the attribute section (lengths kept with their sections)
            if let Some((wl, ao, al)) = sections(&m) {
                let wd = m[19..21 + wl].to_vec(); let at = m[ao..ao + 2 + al].to_vec(); let tail = m[ao + 2 + al..].to_vec();
                m.truncate(19); m.extend(at); m.extend(wd); m.extend(tail); } }
        7 => { // move the conventional NLRI into the withdrawn section
            if let Some((wl, ao, al)) = sections(&m) { let tail = m[ao + 2 + al..].to_vec();
                if wl == 0 && tail.len() < 60000 { let at = m[ao..ao + 2 + al].to_vec(); m.truncate(19);
                    m.extend((tail.len() as u16).to_be_bytes()); m.extend(&tail); m.extend(at); } } }
        8 => { // splice: head of this message, tail of another
            let i = rng.usize(0, m.len()); let j = rng.usize(0, other.len()); m.truncate(i); m.extend(&other[j..]);
            if rng.bool() && m.len() >= 18 && m.len() < 65536 { let l = m.len() as u16; m[16..18].copy_from_slice(&l.to_be_bytes()); } }
        9 => { // insert / delete octets, header length fixed up
            if m.len() > 19 { let i = rng.usize(19, m.len() - 1);
                if rng.bool() { let ins = rb(rng, 1, 4); let t = m.split_off(i); m.extend(ins); m.extend(t); } else { m.remove(i); }
                if rng.chance(3, 4) && m.len() < 65536 { let l = m.len() as u16; m[16..18].copy_from_slice(&l.to_be_bytes()); } } }
        10 => { m.extend(rb(rng, 1, 6)); }
        _ => { // a type-code / flags octet inside the attributes
            if let Some((_, ao, al)) = sections(&m) { if al > 0 { let i = ao + 2 + rng.usize(0, al - 1);
                m[i] = *rng.pick(&[14u8, 15, 2, 17, 8, 25, 0x90, 0x40, 0]); } } }
    }
    m
}

impl Prop for C02 {
    fn gen(&self, rng: &mut Rng, tier: Tier) -> Vec<String> {
        let scale = if tier == Tier::Thorough { 100 } else { 1 };
        let mut out = Vec::new();
        let line = |cfg: &str, b: &[u8]| format!("upd {} {}", cfg, hex(b));
        // uniformly random octets, with and without a valid marker / header
        for i in 0..(1500 * scale) {
            let n = match rng.below(8) { 0 => rng.usize(0, 30), 1 => 4096 + rng.usize(0, 200), 2 => rng.usize(19, 24), _ => rng.usize(0, 120) };
            let mut b = rng.bytes(n);
            if i % 3 != 0 { for x in b.iter_mut().take(16) { *x = 0xff; } }
            if i % 3 == 2 && b.len() >= 19 { let l = b.len() as u16; b[16..18].copy_from_slice(&l.to_be_bytes()); b[18] = 2; }
            out.push(line(&gen_cfg(rng), &b));
        }
        // grammar-derived, adversarial length fields
        for _ in 0..(7000 * scale) { let b = gen_grammar(rng); out.push(line(&gen_cfg(rng), &b)); }
        // mutations of valid messages of every family
        let mut pool: Vec<(String, Vec<u8>)> = Vec::new();
        for i in 0..(1200 * scale) {
            let (cfg, c) = crate::props::c01::gen_case(rng, Some(i % 15), 300);
            pool.push((crate::props::c01::cfg_token(&cfg), crate::props::c01::ref_encode(&cfg, &c)));
        }
        for i in 0..pool.len() {
            let (cfg, b) = pool[i].clone();
            let other = pool[rng.usize(0, pool.len() - 1)].1.clone();
            for _ in 0..6 {
                let mut x = mutate(rng, b.clone(), &other);
                if rng.chance(1, 4) { x = mutate(rng, x, &other); }
                // the same octets also under an unrelated configuration
                let c2 = if rng.chance(1, 4) { gen_cfg(rng) } else { cfg.clone() };
                out.push(line(&c2, &x));
            }
            // truncations at every offset for small messages
            if b.len() <= 64 && i % 4 == 0 {
                for k in 0..b.len() { let mut t = b[..k].to_vec(); if k >= 18 && rng.bool() { let l = k as u16; t[16..18].copy_from_slice(&l.to_be_bytes()); } out.push(line(&cfg, &t)); }
            }
        }
        // length-consistent UPDATEs whose AS_PATH / AS4_PATH value is whole segments followed by 1..3 STRAY octets (and the
        // other near-misses of the segment grammar: count octet one too large / too small, empty value, a lone type octet),
        // in both AS-number widths: the validator that accepts the message and the iterators `hops()` / `segments()` /
        // `to_owned()` read the same octets by different code (round-7 seed: a single-segment fast path `len / size == count`
        // in the validator; the walk of the returned path panicked)
        for four in [true, false] {
            let w = if four { 4usize } else { 2 };
            let cfg = if four { "4" } else { "2" };
            for code in [2u8, 17] {
                let sz = if code == 17 { 4 } else { w };
                for nseg in 1..=3usize {
                    for stray in 0..=4usize {
                        for tweak in 0..3u8 {
                            let mut v: Vec<u8> = Vec::new();
                            for k in 0..nseg {
                                let n = 1 + (k + stray) % 3;
                                v.push(if k % 2 == 0 { 2 } else { 1 });
                                v.push(match tweak { 1 if k + 1 == nseg => n as u8 + 1, 2 if k + 1 == nseg => (n as u8).saturating_sub(1), _ => n as u8 });
                                v.extend(rng.bytes(n * sz));
                            }
                            v.extend(rng.bytes(stray));
                            let mut attrs = vec![0x40u8, 1, 1, 0];
                            attrs.extend([if code == 17 { 0xc0 } else { 0x40 }, code, v.len() as u8]);
                            attrs.extend(&v);
                            attrs.extend([0x40, 3, 4, 10, 0, 0, 1]);
                            let total = 19 + 2 + 2 + attrs.len() + 2;
                            let mut b = header(total, 2);
                            b.extend([0, 0]); b.extend((attrs.len() as u16).to_be_bytes()); b.extend(&attrs); b.extend([8, 10]);
                            out.push(line(cfg, &b));
                        }
                    }
                }
                for v in [vec![], vec![2u8], vec![2u8, 0], vec![2u8, 0, 9], vec![1u8, 1]] {
                    let mut attrs = vec![0x40u8, 1, 1, 0];
                    attrs.extend([if code == 17 { 0xc0 } else { 0x40 }, code, v.len() as u8]);
                    attrs.extend(&v);
                    let total = 19 + 2 + 2 + attrs.len();
                    let mut b = header(total, 2);
                    b.extend([0, 0]); b.extend((attrs.len() as u16).to_be_bytes()); b.extend(&attrs);
                    out.push(line(cfg, &b));
                }
            }
        }
        // framed messages far beyond 4096 octets: a valid header whose length field is the number of octets,
        // filled with conventional /32 announcements (some with a tail that does not parse)
        for (i, total) in [4097usize, 9000, 30000, 65535, 65535].into_iter().enumerate() {
            let mut b = header(total, 2);
            b.extend([0, 0, 0, 0]);
            while b.len() + 5 <= total { b.push(32); b.extend(rng.bytes(4)); }
            while b.len() < total { b.push(if i % 2 == 0 { 0 } else { 0x21 }); }
            out.push(line(if i == 4 { "2,1.1.b" } else { "4" }, &b));
        }
        // well-formed and near-well-formed UPDATEs of every size class up to 65535 octets, large for every structural
        // reason (C01's gen_big: thousands of NLRI, community attributes of thousands of records, AS paths of hundreds
        // of segments, MP attributes far above 4096 octets, one attribute that fills the message), at the exact
        // boundaries 4096 / 4097 / 65535 and in between; each also with its large attribute's / section's / header's
        // length field off by one, cut short, and with two random mutations
        for (kind, target, exact) in crate::props::c01::big_plan(rng, scale) {
            let (cfgv, c) = crate::props::c01::gen_big(rng, kind, target, exact);
            let cfg = crate::props::c01::cfg_token(&cfgv);
            let b = crate::props::c01::ref_encode(&cfgv, &c);
            out.push(line(&cfg, &b));
            // the length field of the largest attribute (the first one in the two-octet form whose length is the largest)
            if let Some((_, ao, al)) = sections(&b) {
                let (mut i, mut best): (usize, Option<(usize, usize)>) = (ao + 2, None);
                while i + 3 <= ao + 2 + al {
                    let ext = b[i] & 0x10 != 0;
                    let (l, h) = if ext { if i + 4 > b.len() { break; } (u16::from_be_bytes([b[i + 2], b[i + 3]]) as usize, 4) } else { (b[i + 2] as usize, 3) };
                    if ext && best.map(|(_, bl)| l > bl).unwrap_or(true) { best = Some((i + 2, l)); }
                    i += h + l;
                }
                if let Some((off, l)) = best {
                    for d in [1i64, -1] { let mut x = b.clone(); let v = (l as i64 + d).clamp(0, 65535) as u16; x[off..off + 2].copy_from_slice(&v.to_be_bytes()); out.push(line(&cfg, &x)); }
                }
                // the attribute section one octet longer / shorter than it is
                for d in [1i64, -1] { let mut x = b.clone(); let v = (al as i64 + d).clamp(0, 65535) as u16; x[ao..ao + 2].copy_from_slice(&v.to_be_bytes()); out.push(line(&cfg, &x)); }
            }
            // the header length one more / one less than the octets; the last octet missing
            for d in [1i64, -1] { let mut x = b.clone(); let v = (b.len() as i64 + d).clamp(0, 65535) as u16; x[16..18].copy_from_slice(&v.to_be_bytes()); out.push(line(&cfg, &x)); }
            { let mut x = b.clone(); x.pop(); out.push(line(&cfg, &x)); }
            let other = pool[rng.usize(0, pool.len() - 1)].1.clone();
            for _ in 0..2 { let x = mutate(rng, b.clone(), &other); out.push(line(&cfg, &x)); }
        }
        // input-driven nesting: ATTR_SETs inside ATTR_SETs, all lengths consistent (depth 508 is the most that
        // fits into 4096 octets, 8000 into the length field), alone and after ORIGIN / AS_PATH / NEXT_HOP;
        // then with random attributes and adversarial inner lengths at random depths
        for depth in [1usize, 2, 3, 5, 8, 12, 20, 40, 120, 300, 500, 508, 2000, 8000] {
            for (k, cfg) in ["4", "2", "4,1.1.b"].into_iter().enumerate() {
                let mut at = if k == 1 { vec![0x40, 1, 1, 0, 0x40, 2, 0, 0x40, 3, 4, 10, 0, 0, 1] } else { vec![] };
                at.extend(nested_attr_set(depth, if k == 2 { 0xe0 } else { 0xc0 }));
                if at.len() + 25 <= 0xffff { out.push(line(cfg, &framed(&at))); }
            }
        }
        for _ in 0..(200 * scale) {
            let depth = rng.usize(1, 60);
            let mut inner = match rng.below(4) { 0 => vec![], 1 => vec![0x40, 1, 1, 0], 2 => { let mut v = vec![0xc0, 8, 4]; v.extend(rng.bytes(4)); v } _ => rb(rng, 0, 12) };
            for d in 0..depth {
                let mut v = rng.bytes(4); v.extend(&inner);
                if rng.chance(1, 6) { v.extend([0x80, 4, 4]); v.extend(rng.bytes(4)); }
                let ext = v.len() > 255 || rng.chance(1, 10);
                let l = if rng.chance(1, 40) || (d + 1 == depth && rng.chance(1, 8)) { match rng.below(4) { 0 => 0, 1 => v.len() + 1, 2 => v.len().saturating_sub(1), _ => 3 } } else { v.len() };
                let mut a = vec![(if rng.bool() { 0xc0 } else { 0xe0 }) | if ext { 0x10 } else { 0 }, 128];
                if ext { a.extend((l as u16).to_be_bytes()); } else { a.push(l as u8); }
                a.extend(v);
                inner = a;
            }
            if inner.len() < 60000 { out.push(line(&gen_cfg(rng), &framed(&inner))); }
        }
        out.push("upd 4 zz".into());
        out.push("upd 3 00".into());
        out.push("upd 4,1.1.x 00".into());
        out
    }

    fn exec(&self, line: &str) -> String { exec_upd(line) }

    fn oracle(&self, line: &str, reply: &str) -> Result<(), String> { judge_c02(line, reply) }

    fn nontrivial(&self, line: &str, reply: &str) -> bool {
        // accepted, or rejected after the header check
        if reply.starts_with("ok") || reply == "panic" { return true; }
        let w: Vec<&str> = line.split(' ').collect();
        if reply != "err" || w.len() < 3 { return false; }
        match unhex_strict(w[2]) { Some(b) => b.len() >= 19 && b[..16].iter().all(|x| *x == 0xff) && b[18] == 2 && u16::from_be_bytes([b[16], b[17]]) >= 19, None => false }
    }

    fn class(&self, line: &str, reply: &str) -> String {
        let w: Vec<&str> = line.split(' ').collect();
        let cfg = w.get(1).copied().unwrap_or("");
        let width = cfg.split(',').next().unwrap_or("");
        let ap = if cfg.contains(',') { "addpath" } else { "plain" };
        let r = if reply.starts_with("ok") {
            let e = |n: &str| group(reply, n).map(|v| v == "err" || v.ends_with(";E") || v.ends_with(":E")).unwrap_or(false);
            if e("mw") || e("ma") { "accepted-with-item-errors" } else { "accepted" }
        } else { reply };
        format!("w{}:{}:{}", width, ap, r)
    }
}

//------------ iterator protocol ---------------------------------------------------

fn sh_res<T, E>(sh: impl Fn(&T) -> String) -> impl Fn(&Result<T, E>) -> String {
    move |x| match x { Ok(n) => sh(n), Err(_) => "E".to_string() }
}

/// the labels of an MPLS / MPLS-VPN NLRI
fn labels_of<'a>(n: &'a Nlri<&'a [u8]>) -> Option<&'a routecore::bgp::nlri::mpls::Labels<&'a [u8]>> {
    Some(match n {
        Nlri::Ipv4MplsUnicast(x) => x.nlri().labels(), Nlri::Ipv4MplsUnicastAddpath(x) => x.nlri().labels(),
        Nlri::Ipv6MplsUnicast(x) => x.nlri().labels(), Nlri::Ipv6MplsUnicastAddpath(x) => x.nlri().labels(),
        Nlri::Ipv4MplsVpnUnicast(x) => x.nlri().labels(), Nlri::Ipv4MplsVpnUnicastAddpath(x) => x.nlri().labels(),
        Nlri::Ipv6MplsVpnUnicast(x) => x.nlri().labels(), Nlri::Ipv6MplsVpnUnicastAddpath(x) => x.nlri().labels(),
        _ => return None,
    })
}

macro_rules! typed_proto {
    ($p:expr, $m:expr, $meth:ident, $tag:literal, $bound:expr, [$($name:literal => $t:ty),+ $(,)?]) => {{
        $(
            if let Ok(Some(_)) = $m.$meth::<_, $t>() {
                $p.it(concat!($tag, ":", $name), || $m.$meth::<_, $t>().ok().flatten().unwrap(),
                    sh_res(|n: &$t| show_nlri(&Nlri::from(n.clone()))), $bound);
            }
        )+
    }};
}

macro_rules! typed_proto_all {
    ($p:expr, $m:expr, $meth:ident, $tag:literal, $bound:expr) => {
        typed_proto!($p, $m, $meth, $tag, $bound, [
            "Ipv4Unicast" => Ipv4UnicastNlri, "Ipv4UnicastAddpath" => Ipv4UnicastAddpathNlri,
            "Ipv4Multicast" => Ipv4MulticastNlri, "Ipv4MulticastAddpath" => Ipv4MulticastAddpathNlri,
            "Ipv4MplsUnicast" => Ipv4MplsUnicastNlri<_>, "Ipv4MplsUnicastAddpath" => Ipv4MplsUnicastAddpathNlri<_>,
            "Ipv4MplsVpnUnicast" => Ipv4MplsVpnUnicastNlri<_>, "Ipv4MplsVpnUnicastAddpath" => Ipv4MplsVpnUnicastAddpathNlri<_>,
            "Ipv4RouteTarget" => Ipv4RouteTargetNlri<_>, "Ipv4RouteTargetAddpath" => Ipv4RouteTargetAddpathNlri<_>,
            "Ipv4FlowSpec" => Ipv4FlowSpecNlri<_>, "Ipv4FlowSpecAddpath" => Ipv4FlowSpecAddpathNlri<_>,
            "Ipv6Unicast" => Ipv6UnicastNlri, "Ipv6UnicastAddpath" => Ipv6UnicastAddpathNlri,
            "Ipv6Multicast" => Ipv6MulticastNlri, "Ipv6MulticastAddpath" => Ipv6MulticastAddpathNlri,
            "Ipv6MplsUnicast" => Ipv6MplsUnicastNlri<_>, "Ipv6MplsUnicastAddpath" => Ipv6MplsUnicastAddpathNlri<_>,
            "Ipv6MplsVpnUnicast" => Ipv6MplsVpnUnicastNlri<_>, "Ipv6MplsVpnUnicastAddpath" => Ipv6MplsVpnUnicastAddpathNlri<_>,
            "Ipv6FlowSpec" => Ipv6FlowSpecNlri<_>, "Ipv6FlowSpecAddpath" => Ipv6FlowSpecAddpathNlri<_>,
            "L2VpnVpls" => L2VpnVplsNlri, "L2VpnVplsAddpath" => L2VpnVplsAddpathNlri,
            "L2VpnEvpn" => L2VpnEvpnNlri<_>, "L2VpnEvpnAddpath" => L2VpnEvpnAddpathNlri<_>,
        ])
    };
}

/// `ok`, or `<iterator>:<first failing consumption>`: common::iter_protocol on every iterator an accepted
/// UPDATE hands out (attribute iterators checked and unchecked, the NLRI iterators of both sections - enum,
/// chained and typed per family -, the community iterators in both flavours, the family iterators, the
/// labels of the MPLS NLRI, hops / segments / asns of AS_PATH and AS4_PATH).  Each is made afresh for
/// every consumption; only accessors that returned Ok in the groups above are asked again.
pub(crate) fn proto_of_msg(m: &UpdateMessage<&[u8]>, bound: usize) -> String {
    use routecore::bgp::path_attributes::UncheckedPathAttributes;
    let mut p = Proto::new();
    if !p.on() { return p.value(); }
    if m.path_attributes().is_ok() {
        p.itc("path_attributes", || m.path_attributes().ok().unwrap(), sh_res(|w: &routecore::bgp::path_attributes::WireformatPathAttribute<'_, &[u8]>| {
            let owned = match w.to_owned() { Ok(pa) => show_rc(&pa), Err(_) => "owned-err".into() };
            format!("{}:{}:{}:{}", u8::from(w.flags()), w.type_code(), w.length(), owned)
        }), bound);
        // the iterator behind mp_* / typed_* / next-hop lookups (private accessor, public type and constructor)
        p.it("unchecked_path_attributes", || UncheckedPathAttributes::from_parser(m.path_attributes().ok().unwrap().parser),
            |e| format!("{}:{}:{}:{}", u8::from(e.flags()), e.type_code(), e.length(), hex(e.value_into_parser().peek_all())), bound);
    }
    if m.conventional_withdrawals().is_ok() { p.it("conventional_withdrawals", || m.conventional_withdrawals().ok().unwrap(), sh_res(show_nlri), bound); }
    if m.conventional_announcements().is_ok() { p.it("conventional_announcements", || m.conventional_announcements().ok().unwrap(), sh_res(show_nlri), bound); }
    if let Ok(Some(_)) = m.mp_withdrawals() { p.it("mp_withdrawals", || m.mp_withdrawals().ok().flatten().unwrap(), sh_res(show_nlri), bound); }
    if let Ok(Some(_)) = m.mp_announcements() { p.it("mp_announcements", || m.mp_announcements().ok().flatten().unwrap(), sh_res(show_nlri), bound); }
    if m.withdrawals().is_ok() { p.it("withdrawals", || m.withdrawals().ok().unwrap(), sh_res(show_nlri), 2 * bound); }
    if m.announcements().is_ok() { p.it("announcements", || m.announcements().ok().unwrap(), sh_res(show_nlri), 2 * bound); }
    typed_proto_all!(p, m, typed_withdrawals, "typed_withdrawals", bound);
    typed_proto_all!(p, m, typed_announcements, "typed_announcements", bound);
    p.it("announcement_fams", || m.announcement_fams(), |t| nlri_type_name(*t), 4);
    p.it("withdrawal_fams", || m.withdrawal_fams(), |t| nlri_type_name(*t), 4);
    if let Ok(Some(_)) = m.communities() {
        p.it("communities", || m.communities().ok().flatten().unwrap(), |c| hex(&c.to_raw()), bound);
        p.it("human_readable_communities", || m.human_readable_communities().ok().flatten().unwrap(), |c| format!("{:?}", c).replace(' ', ""), bound);
    }
    if let Ok(Some(_)) = m.ext_communities() { p.it("ext_communities", || m.ext_communities().ok().flatten().unwrap(), |c| hex(&c.to_raw()), bound); }
    if let Ok(Some(_)) = m.ipv6_ext_communities() { p.it("ipv6_ext_communities", || m.ipv6_ext_communities().ok().flatten().unwrap(), |c| hex(&c.to_raw()), bound); }
    if let Ok(Some(_)) = m.large_communities() { p.it("large_communities", || m.large_communities().ok().flatten().unwrap(), |c| hex(&c.to_raw()), bound); }
    // labels of the first MPLS NLRI of either section
    for (name, first) in [("labels(withdrawal)", m.withdrawals().ok().and_then(|mut it| it.find_map(|r| r.ok().filter(|n| labels_of(n).is_some())))),
                          ("labels(announcement)", m.announcements().ok().and_then(|mut it| it.find_map(|r| r.ok().filter(|n| labels_of(n).is_some()))))] {
        if let Some(n) = first { if let Some(l) = labels_of(&n) { p.it(name, || l.iter(), |x| format!("{:?}", x).replace(' ', ""), bound); } }
    }
    if let Ok(Some(path)) = m.aspath() { crate::props::c13::proto_path!(&mut p, "aspath", &path); }
    if let Ok(Some(path)) = m.as4path() { crate::props::c13::proto_path!(&mut p, "as4path", &path); }
    p.value()
}
