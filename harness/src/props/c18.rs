//! C18: code points <-> enums, exhaustively through the real conversions.
use crate::common::*;
use routecore::bgp::message::notification::*;
use routecore::bgp::nlri::afisafi::{AfiSafiType, NlriType, Afi};

pub struct C18;

macro_rules! tables {
    ($( $name:literal, $ty:ty, $int:ty );* $(;)?) => {
        const TABLES: &[(&str, u32)] = &[ $( ($name, <$int>::BITS) ),* ];
        fn te(name: &str, n: u64) -> Option<String> {
            match name {
                $( $name => {
                    let v: $ty = (n as $int).into();
                    let back: $int = v.into();
                    Some(format!("{:?} {}", v, back))
                } )*
                _ => None,
            }
        }
    };
}

tables! {
    "bgp.fsm.state_machine.State", routecore::bgp::fsm::state_machine::State, u16;
    "bgp.message.mod.MsgType", routecore::bgp::message::MsgType, u8;
    "bgp.message.notification.ErrorCode", ErrorCode, u8;
    "bgp.message.notification.MessageHeaderSubcode", MessageHeaderSubcode, u8;
    "bgp.message.notification.OpenMessageSubcode", OpenMessageSubcode, u8;
    "bgp.message.notification.UpdateMessageSubcode", UpdateMessageSubcode, u8;
    "bgp.message.notification.FiniteStateMachineSubcode", FiniteStateMachineSubcode, u8;
    "bgp.message.notification.CeaseSubcode", CeaseSubcode, u8;
    "bgp.message.notification.RouteRefreshMessageSubcode", RouteRefreshMessageSubcode, u8;
    "bgp.message.open.CapabilityType", routecore::bgp::message::open::CapabilityType, u8;
    "bgp.message.open.OptionalParameterType", routecore::bgp::message::open::OptionalParameterType, u8;
    "bgp.nlri.evpn.EvpnRouteType", routecore::bgp::nlri::evpn::EvpnRouteType, u8;
    "bgp.types.OriginType", routecore::bgp::types::OriginType, u8;
    "bgp.types.RouteRefreshSubtype", routecore::bgp::types::RouteRefreshSubtype, u8;
    "bgp.types.PathAttributeType", routecore::bgp::types::PathAttributeType, u8;
    "bmp.message.MessageType", routecore::bmp::message::MessageType, u8;
    "bmp.message.PeerType", routecore::bmp::message::PeerType, u8;
    "bmp.message.InformationTlvType", routecore::bmp::message::InformationTlvType, u16;
    "mrt.MessageType", routecore::mrt::MessageType, u16;
    "mrt.TableDumpv2SubType", routecore::mrt::TableDumpv2SubType, u16;
    "mrt.Bgp4MpSubType", routecore::mrt::Bgp4MpSubType, u16;
    "bgp.nlri.afisafi.Afi", Afi, u16;
    "bgp.path_attributes.PathAttributeType", routecore::bgp::path_attributes::PathAttributeType, u8;
}

/// BGP4MP STATE_CHANGE (subtype 0) and STATE_CHANGE_AS4 (subtype 5) records whose old and new state are `n`, read
/// back through `MrtFile::messages()`: the four observed states must be one value, reported like `te`
fn via_mrtstate(n: u16) -> String {
    use routecore::mrt::{Bgp4Mp, MrtFile};
    let mut seen: Vec<routecore::bgp::fsm::state_machine::State> = vec![];
    for as4 in [false, true] {
        let mut body: Vec<u8> = vec![];
        if as4 { body.extend(65001u32.to_be_bytes()); body.extend(65002u32.to_be_bytes()); } else { body.extend(65001u16.to_be_bytes()); body.extend(65002u16.to_be_bytes()); }
        body.extend(0u16.to_be_bytes()); body.extend(1u16.to_be_bytes());
        body.extend([10, 0, 0, 1]); body.extend([10, 0, 0, 2]);
        body.extend(n.to_be_bytes()); body.extend(n.to_be_bytes());
        let mut rec: Vec<u8> = vec![0, 0, 0, 1];
        rec.extend(16u16.to_be_bytes()); rec.extend((if as4 { 5u16 } else { 0u16 }).to_be_bytes());
        rec.extend((body.len() as u32).to_be_bytes()); rec.extend(body);
        let f = MrtFile::new(&rec[..]);
        let mut it = f.messages();
        match it.next() {
            Some(Bgp4Mp::StateChange(sc)) => { seen.push(sc.old_state()); seen.push(sc.new_state()); }
            Some(Bgp4Mp::StateChangeAs4(sc)) => { seen.push(sc.old_state()); seen.push(sc.new_state()); }
            _ => return "no-state-change-record".into(),
        }
    }
    if seen.len() != 4 || seen.iter().any(|x| *x != seen[0]) { return format!("states-differ {:?}", seen).replace(' ', ""); }
    format!("{} {}", dbg(&seen[0]), u16::from(seen[0]))
}

/// canonical Debug: strip spaces so `Unsupported(3, 3)` == model's `Unsupported(3,3)`
fn dbg<T: std::fmt::Debug>(t: &T) -> String { format!("{:?}", t).replace(' ', "") }

fn afisafi(a: u16, s: u8) -> String {
    let x: AfiSafiType = (a, s).into();
    let (a2, s2): (u16, u8) = x.into();
    let nt0: NlriType = (x, false).into();
    let nt1: NlriType = (x, true).into();
    // (tie coverage) the two conversions of the afisafi! macro nothing else reaches: From<NlriType> for AfiSafiType
    // (= NlriType::afi_safi) and AfiSafiType::afi (the AFI half, as a number: an unsupported pair keeps its AFI in
    // Afi::Unimplemented even when the AFI alone is a known one)
    if AfiSafiType::from(nt0) != nt0.afi_safi() || AfiSafiType::from(nt1) != nt1.afi_safi() || u16::from(x.afi()) != a2 {
        return format!("From<NlriType>: {} {}; afi(): {} for {}", dbg(&AfiSafiType::from(nt0)), dbg(&AfiSafiType::from(nt1)), u16::from(x.afi()), dbg(&x));
    }
    format!("{} {} {} {} {} {} {} {}", dbg(&x), a2, s2, hex(&x.as_bytes()),
        dbg(&nt0), dbg(&nt1), dbg(&nt0.afi_safi()), dbg(&nt1.afi_safi()))
}

fn header_with_type(t: u8) -> Vec<u8> {
    let mut v = vec![0xffu8; 16];
    v.extend_from_slice(&[0, 19, t]);
    v
}

impl Prop for C18 {
    fn gen(&self, rng: &mut Rng, tier: Tier) -> Vec<String> {
        let mut v = Vec::new();
        // exhaustive: every value of every enumeration
        // the enumerations this harness runs through vs. the tables the translator found in the source: a NEW
        // typeenum! in routecore breaks this tie until the harness enumerates it too
        v.push("tables".to_string());
        for (name, bits) in TABLES {
            for n in 0..(1u64 << bits) { v.push(format!("te {} {}", name, n)); }
        }
        for n in 0..256 { v.push(format!("msgtype {}", n)); v.push(format!("apdir {}", n)); v.push(format!("segtype {}", n)); }
        // decoders that carry an enumeration number (exhaustive): MRT STATE_CHANGE records (round-6 seed: codes 7 / 8 mapped
        // to Idle while parsing the record, the typeenum! conversions untouched), Capability::typ()
        for n in 0..65536u32 { v.push(format!("via mrtstate {}", n)); }
        for n in 0..256 { v.push(format!("via captype {}", n)); }
        for c in 0..256 { for s in 0..256 { v.push(format!("details {} {}", c, s)); } }
        // the same pairs on NOTIFICATIONs that carry data (the data must not influence code/subcode):
        // an embedded (code, subcode) pair as RFC 8538 Hard Reset carries it, one octet, and random data
        for c in 0..256u32 { for s in 0..256u32 {
            let d = match (c + s) % 4 {
                0 => vec![6u8, 2],
                1 => vec![4u8, 0, 1, 2, 3],
                2 => vec![rng.u8()],
                _ => { let n = rng.usize(2, 12); rng.bytes(n) }
            };
            v.push(format!("details {} {} {}", c, s, hex(&d)));
        } }
        for c in [0u32, 1, 2, 3, 4, 5, 6, 7, 8, 255] { for s in 0..16u32 { for d in [[6u8, 2], [4, 0], [2, 7], [6, 9], [1, 1], [255, 255]] {
            v.push(format!("details {} {} {}", c, s, hex(&d)));
        } } }
        // AFI/SAFI: all SAFIs for the AFIs around the named ones, plus random pairs
        for a in [0u16, 1, 2, 3, 24, 25, 26, 255, 256, 257, 511, 512, 65535] {
            for s in 0..256 { v.push(format!("afisafi {} {}", a, s)); }
        }
        for _ in 0..2000 { v.push(format!("afisafi {} {}", rng.u16(), rng.u8())); }
        // all 2^24 (AFI, SAFI) pairs, in 64 slices of 1024 AFIs - in BOTH tiers (the property's quantifier;
        // about 0.2 s per slice on the model side): round trip and as_bytes() against an independently
        // computed big-endian AFI ++ SAFI for every pair, aggregated per slice
        let _ = tier;
        for k in 0..64u32 { v.push(format!("afisafi-sweep {} {}", k * 1024, k * 1024 + 1023)); }
        v
    }

    fn exec(&self, line: &str) -> String {
        let w: Vec<&str> = line.split(' ').collect();
        match w.as_slice() {
            ["tables"] => {
                let mut t: Vec<String> = TABLES.iter().map(|(n, b)| format!("{}/{}", n, b)).collect();
                t.sort();
                t.join(",")
            }
            ["te", name, n] => {
                let n: u64 = match n.parse() { Ok(n) => n, Err(_) => return "bad-op".into() };
                match TABLES.iter().find(|(t, _)| t == name) {
                    Some((_, bits)) if n < (1u64 << bits) => {
                        let s = te(name, n).unwrap();
                        let (d, b) = s.rsplit_once(' ').unwrap();
                        format!("{} {}", d.replace(' ', ""), b)
                    }
                    _ => "bad-op".into(),
                }
            }
            ["afisafi", a, s] => match (a.parse::<u16>(), s.parse::<u8>()) {
                (Ok(a), Ok(s)) => afisafi(a, s),
                _ => "bad-op".into(),
            },
            ["afisafi-sweep", lo, hi] => match (lo.parse::<u32>(), hi.parse::<u32>()) {
                (Ok(lo), Ok(hi)) if hi <= 65535 => {
                    let (mut named, mut rt, mut bf) = (0u64, 0u64, 0u64);
                    for a in lo..=hi { for s in 0..=255u8 {
                        let a = a as u16;
                        let x: AfiSafiType = (a, s).into();
                        if !matches!(x, AfiSafiType::Unsupported(..)) { named += 1; }
                        let back: (u16, u8) = x.into();
                        if back != (a, s) { rt += 1; }
                        let be = a.to_be_bytes();
                        if x.as_bytes() != [be[0], be[1], s] { bf += 1; }
                    } }
                    format!("named={} roundtrip_fail={} bytes_fail={}", named, rt, bf)
                }
                _ => "bad-op".into(),
            },
            // an enumeration number as a DECODER that carries it reports it (not the bare From / Into): same reply as `te`
            ["via", "mrtstate", n] => match n.parse::<u16>() { Ok(n) => via_mrtstate(n), _ => "bad-op".into() },
            ["via", "captype", n] => match n.parse::<u8>() {
                Ok(n) => { let c = routecore::bgp::message::open::Capability::new(vec![n, 0]); let t = c.typ(); format!("{} {}", dbg(&t), u8::from(t)) }
                _ => "bad-op".into(),
            },
            ["msgtype", n] => match n.parse::<u8>() {
                Ok(n) => {
                    let h = routecore::bgp::message::Header::for_slice(header_with_type(n));
                    dbg(&h.msg_type())
                }
                _ => "bad-op".into(),
            },
            ["apdir", n] => match n.parse::<u8>() {
                Ok(n) => match routecore::bgp::types::AddpathDirection::try_from(n) {
                    Ok(d) => format!("{:?} {}", d, u8::from(d)),
                    Err(_) => "err".into(),
                },
                _ => "bad-op".into(),
            },
            ["segtype", n] => match n.parse::<u8>() {
                Ok(n) => match routecore::bgp::aspath::SegmentType::try_from(n) {
                    Ok(d) => format!("{:?} {}", d, u8::from(d)),
                    Err(_) => "err".into(),
                },
                _ => "bad-op".into(),
            },
            ["details", c, s] | ["details", c, s, _] => match (c.parse::<u8>(), s.parse::<u8>()) {
                (Ok(c), Ok(s)) => {
                    let data = if w.len() == 4 { match unhex(w[3]) { Some(d) => d, None => return "bad-op".into() } } else { vec![] };
                    if data.len() > 4000 { return "bad-op".into(); }
                    let mut m = header_with_type(3);
                    let total = 21 + data.len();
                    m[16] = (total >> 8) as u8;
                    m[17] = total as u8;
                    m.push(c); m.push(s);
                    m.extend_from_slice(&data);
                    let msg = NotificationMessage::from_octets(m).unwrap();
                    let d = msg.details();
                    let raw = d.raw();
                    let name = format!("{:?}", d);
                    let name = name.split('(').next().unwrap().to_string();
                    format!("{} {} {}", name, raw[0], raw[1])
                }
                _ => "bad-op".into(),
            },
            _ => "bad-op".into(),
        }
    }

    /// the property itself, evaluated on the implementation's reply
    fn oracle(&self, line: &str, reply: &str) -> Result<(), String> {
        if reply == "bad-op" { return Ok(()); }
        let w: Vec<&str> = line.split(' ').collect();
        let r: Vec<&str> = reply.split(' ').collect();
        match w.as_slice() {
            ["te", _, n] => {
                if r.len() != 2 || r[1] != *n { return Err(format!("number -> enum -> number gave {}", reply)); }
                // unknown numbers keep their value in the variant's payload
                if let Some(p) = r[0].find('(') {
                    let inner = &r[0][p + 1..r[0].len() - 1];
                    if inner != *n { return Err(format!("catch-all variant carries {} for {}", inner, n)); }
                }
                Ok(())
            }
            ["afisafi", a, s] => {
                if r.len() != 8 { return Err("short reply".into()); }
                if r[1] != *a || r[2] != *s { return Err(format!("pair -> enum -> pair gave {} {}", r[1], r[2])); }
                let a: u16 = a.parse().unwrap(); let s: u8 = s.parse().unwrap();
                let be = a.to_be_bytes();
                if r[3] != hex(&[be[0], be[1], s]) { return Err(format!("as_bytes = {}", r[3])); }
                if r[6] != r[0] || r[7] != r[0] { return Err("NlriType -> AfiSafiType differs".into()); }
                if !r[0].starts_with("Unsupported") && (r[4] == r[5] || r[5] != format!("{}Addpath", r[4])) {
                    return Err("NlriType plain/addpath variants wrong".into());
                }
                Ok(())
            }
            ["afisafi-sweep", ..] => {
                if reply.ends_with("roundtrip_fail=0 bytes_fail=0") { Ok(()) } else { Err(reply.into()) }
            }
            ["via", _, n] => {
                if r.len() != 2 || r[1] != *n { return Err(format!("number -> decoder -> enum -> number gave {}", reply)); }
                if let Some(p) = r[0].find('(') {
                    let inner = &r[0][p + 1..r[0].len() - 1];
                    if inner != *n { return Err(format!("catch-all variant carries {} for {}", inner, n)); }
                }
                Ok(())
            }
            ["msgtype", n] => {
                let v: routecore::bgp::message::MsgType = n.parse::<u8>().unwrap().into();
                if dbg(&v) == reply { Ok(()) } else { Err(format!("Header::msg_type {} but MsgType::from {}", reply, dbg(&v))) }
            }
            ["apdir", n] | ["segtype", n] => {
                if reply == "err" || (r.len() == 2 && r[1] == *n) { Ok(()) } else { Err(reply.into()) }
            }
            ["details", c, s] | ["details", c, s, _] => {
                if r.len() == 3 && r[1] == *c && r[2] == *s { Ok(()) } else {
                    Err(format!("details re-encode to {} {}", r.get(1).unwrap_or(&"?"), r.get(2).unwrap_or(&"?")))
                }
            }
            _ => Ok(()),
        }
    }

    fn nontrivial(&self, _line: &str, reply: &str) -> bool {
        // named variants and range variants (everything but the plain catch-all)
        !reply.starts_with("Unimplemented(") && !reply.starts_with("Unsupported(") && reply != "err" && reply != "bad-op"
    }

    fn class(&self, line: &str, reply: &str) -> String {
        let op = line.split(' ').next().unwrap_or("");
        let k = if reply.starts_with("Unimplemented") || reply.starts_with("Unsupported") { "catch-all" }
                else if reply == "err" { "err" } else if reply.contains('(') { "range" } else { "named" };
        format!("{}:{}", op, k)
    }
}
