//! C19: communities keep their raw value through every representation.
//!
//! Request texts are the hex of their UTF-8 bytes (`-` = empty).  Ops:
//!   std/ext/lrg/v6 <raw>   accessors, classification, Display, flavour FromStr and enum FromStr of the Display text
//!   raw <bytes>            Community::from([u8; N]) by length, as_ref
//!   wk <u16>               Wellknown::from_u16, to_u32, Display
//!   pwk/pstd/pext/plrg/pv6/pany <text>   the six FromStr impls on arbitrary text
//!   pnum <d16|d32|x32|x64> <text>, pip4 <text>   the std parsers the code relies on (validates the model's numerals)
//!   lowercheck             which non-ASCII scalar values lower-case to pure ASCII
//!   sweep <lo> <hi>        internal: the implementation's own to_string -> from_str over every u32 in [lo, hi)
use crate::common::*;
use rayon::prelude::*;
use routecore::bgp::communities::*;
use std::str::FromStr;

pub struct C19;

fn text_of_hex(h: &str) -> Option<String> { String::from_utf8(unhex(h)?).ok() }
fn hex_of_text(s: &str) -> String { hex(s.as_bytes()) }

fn opt<T: std::fmt::Display>(o: Option<T>) -> String { match o { Some(v) => v.to_string(), None => "none".into() } }
fn b01(b: bool) -> &'static str { if b { "1" } else { "0" } }
fn dbg<T: std::fmt::Debug>(t: &T) -> String { format!("{:?}", t).replace(' ', "") }

fn show_any(r: Result<Community, ParseError>) -> String {
    match r {
        Ok(Community::Standard(c)) => format!("S:{}", hex(&c.to_raw())),
        Ok(Community::Extended(c)) => format!("E:{}", hex(&c.to_raw())),
        Ok(Community::Large(c)) => format!("L:{}", hex(&c.to_raw())),
        Ok(Community::Ipv6Extended(c)) => format!("V:{}", hex(&c.to_raw())),
        Err(_) => "err".into(),
    }
}
fn show_raw<const N: usize, E>(r: Result<[u8; N], E>) -> String {
    match r { Ok(a) => format!("ok:{}", hex(&a)), Err(_) => "err".into() }
}

/// `text=.. back=.. eback=..`; the Display call, each parser call run separately so that a panic in one is visible
fn triple(text: impl FnOnce() -> String + std::panic::UnwindSafe, back: impl Fn(&str) -> String) -> String {
    let t = match std::panic::catch_unwind(text) { Ok(t) => t, Err(_) => return "text=panic back=- eback=-".into() };
    let bk = catch(|| back(&t));
    let eb = catch(|| show_any(Community::from_str(&t)));
    format!("text={} back={} eback={}", hex_of_text(&t), bk, eb)
}

fn arr<const N: usize>(h: &str) -> Option<[u8; N]> { unhex(h)?.try_into().ok() }

// ---- independent reference for the extended-community type table (RFC 4360 section 3, RFC 7153 section 5.1) --
fn ref_ext_type(t: u8) -> String {
    match t {
        0x00 => "TransitiveTwoOctetSpecific".into(),
        0x01 => "TransitiveIp4Specific".into(),
        0x02 => "TransitiveFourOctetSpecific".into(),
        0x03 => "TransitiveOpaque".into(),
        0x40 => "NonTransitiveTwoOctetSpecific".into(),
        0x41 => "NonTransitiveIp4Specific".into(),
        0x42 => "NonTransitiveFourOctetSpecific".into(),
        0x43 => "NonTransitiveOpaque".into(),
        t => format!("OtherType({})", t),
    }
}
/// sub-type octet carried by the reported sub-type
fn sub_code(s: &str) -> Option<u8> {
    match s {
        "RouteTarget" => Some(2),
        "RouteOrigin" => Some(3),
        _ => s.strip_prefix("OtherSubType(")?.strip_suffix(')')?.parse().ok(),
    }
}

fn field<'a>(reply: &'a str, key: &str) -> Option<&'a str> {
    reply.split(' ').find_map(|kv| kv.strip_prefix(key).and_then(|r| r.strip_prefix('=')))
}

/// one standard community through every representation; None = everything the property says holds
fn std_check(v: u32) -> bool {
    let c = StandardCommunity::from_u32(v);
    let raw = v.to_be_bytes();
    if c.to_raw() != raw || c.to_u32() != v { return false; }
    let n = c.is_wellknown() as u8 + c.is_reserved() as u8 + c.is_private() as u8;
    if n != 1 { return false; }
    if c.is_wellknown() {
        if c.asn().is_some() || c.tag().is_some() { return false; }
    } else {
        match (c.asn(), c.tag()) {
            (Some(a), Some(t)) => { if a.into_u32() as u64 * 65536 + t.value() as u64 != v as u64 || a.into_u32() > 65535 { return false; } }
            _ => return false,
        }
    }
    let s = c.to_string();
    match StandardCommunity::from_str(&s) { Ok(c2) if c2 == c => {}, _ => return false }
    match Community::from_str(&s) { Ok(Community::Standard(c2)) if c2 == c => {}, _ => return false }
    true
}

const NUM_TEXTS: &[&str] = &[
    "", "+", "-", "0", "+0", "-0", "00", "000000000000000000000000000000001", "1", "+1", "++1", "+-1", "-1", " 1", "1 ", "1\n",
    "65535", "65536", "+65535", "065535", "0000065535", "99999", "4294967295", "4294967296", "+4294967295",
    "04294967295", "18446744073709551615", "18446744073709551616", "ffff", "FFFF", "fFfF", "+ff", "0x1", "0X1", "x",
    "ffffffff", "100000000", "0ffffffff", "+ffffffff", "ffffffffffffffff", "10000000000000000", "0ffffffffffffffff",
    "1_000", "1,0", "1.0", "1e3", "\u{0661}", "\u{ff11}", "g", "G", "/", ":", "@", "`", "a", "f", "A", "F", "9",
    "12345678901234567890123456789012345678901234567890",
];
const IP_TEXTS: &[&str] = &[
    "1.2.3.4", "0.0.0.0", "255.255.255.255", "256.1.1.1", "1.256.1.1", "1.1.1.256", "01.2.3.4", "1.2.3.04", "00.0.0.0", "000.0.0.0",
    "1.2.3", "1.2.3.4.5", "1..2.3", ".1.2.3", "1.2.3.", "1.2.3.4.", "+1.2.3.4", "1.2.3.4 ", " 1.2.3.4", "1.2.3.0004", "1.2.3.1000",
    "", ".", "...", "1", "a.b.c.d", "1.2.3.a", "1.2.3.-4", "1.2.3.+4", "127.0.0.1", "10.0.0.0", "192.168.100.200", "999.1.1.1",
    "1.2.3.4:5", "0x1.2.3.4", "1.2.3.\u{0664}", "9.99.199.249", "100.10.1.0", "0.00.0.0",
];
const ODD_TEXTS: &[&str] = &[
    "", " ", ":", "::", ":::", "AS", "as", "AS:", "AS1:", ":1", "AS1:1", "as1:1", "As1:1", "aS1:1", "ASAS1:1", "AS 1:1", "AS+1:1", "AS+1:+1",
    "+1:1", "1:+1", "01:01", "AS65535:65535", "AS65536:1", "AS1:65536", "1:2:3", "AS1:2:3", "as1:2:3", "+1:+2:+3", "1:2:3:4", "1:2:", ":2:3", "1::3",
    "4294967295:4294967295:4294967295", "4294967296:1:1", "1:4294967296:1", "1:1:4294967296", "0:0:0", "00:00:00", "AS0:0",
    "0x", "0x0", "0x1", "0X1", "0x+1", "0x-1", "0xg", "0x00000001", "0x000000001", "0x0000000000000001", "0x00000000000000001",
    "0xFFFFFFFF", "0xffffffff", "0x100000000", "0x0100000000", "0xFFFFFFFFFFFFFFFF", "0x10000000000000000", "0x+FFFFFFF", "0x+FFFFFFFF",
    "0x+FFFFFFFFFFFFFFF", "0x+FFFFFFFFFFFFFFFF", "0x00000000FFFF0001", "0x0000000000000000", "0xFFFF0001", "0xffff0001", "0xFFFFFF01",
    "0x0102030405060708090a0b0c0d0e0f1011121314", "0x0102030405060708090A0B0C0D0E0F1011121314", "0x+102030405060708090a0b0c0d0e0f1011121314",
    "0x0102030405060708+90a0b0c0d0e0f1011121314", "0x01020304050607080910111213141516+1121314", "0x010203040506070809101112131415161+121314",
    "0x0000000000000000000000000000000000000001", "0x000000000000000000000000ffff000100000001", "0x00000000000000000000000000000000ffff0001",
    "0x000000000000000000000000000000000000000", "0x00000000000000000000000000000000000000000", "0x000000000000000g000000000000000000000000",
    "0x00000000000000\u{e9}000000000000000000000000", "0x000000000000000\u{e9}00000000000000000000000",
    "0x0000000000000000000000000000000\u{e9}0000000", "0x000000000000000000000000000000\u{e9}00000000", "0x\u{e9}00000000000000000000000000000000000000",
    "0x00000000000000000000000000000000000000\u{e9}", "0x0000000000000000000000000000000000000\u{20ac}",
    "rt", "rt:", "rt::", "rt:1", "rt:1:", "rt::1", "rt:1:2", "rt:1:2:3", "RT:1:2", "Rt:1:2", "ro:1:2", "RO:1:2", "rx:1:2", "rt :1:2", " rt:1:2",
    "rt:AS1:2", "rt:as1:2", "rt:ASAS1:2", "rt:+1:+2", "rt:65535:4294967295", "rt:65535:4294967296", "rt:65536:65535", "rt:65536:65536",
    "rt:4294967295:65535", "rt:4294967296:1", "rt:AS65536:1", "rt:065536:1", "rt:0000000001:1", "rt:1.2.3.4:5", "rt:1.2.3.4:65536", "rt:AS1.2.3.4:5",
    "rt:as1.2.3.4:5", "rt:01.2.3.4:5", "rt:1.2.3.4:+5", "rt:256.2.3.4:5", "rt:1.2.3:5", "rt:1.2.3.4.5:6", "ro:1.2.3.4:5", "ro:AS70000:12", "rt:123456",
    "rt:1:2 ", "rt:2001:db8::1:5", "rt:::5", "rt:::1:5", "rt:::ffff:1.2.3.4:5",
    "NO_EXPORT", "no_export", "No_Export", "NoExport", "NOEXPORT", "noexport", "NO-EXPORT", "NO EXPORT", " NO_EXPORT", "NO_EXPORT ", "NO_EXPORT\n",
    "NOPEER", "NO_PEER", "NoPeer", "nopeer", "No_Peer", "NO__PEER", "Standby PE", "standby pe", "STANDBY PE", "standby-pe", "STANDBY-PE", "StandbyPe",
    "standbype", "standby_pe", "accept-own-nexthop", "ACCEPT_OWN_NEXTHOP", "accept_own_nexthop", "ACCEPT-OWN-NEXTHOP", "AcceptOwnNexthop", "acceptownnexthop",
    "ROUTE_FILTER_TRANSLATED_v4", "ROUTE_FILTER_TRANSLATED_V4", "route_filter_translated_v4", "RouteFilterTranslatedV4", "ROUTE_FILTER_v6", "routefilterv6",
    "BLACKHOLE", "blackhole", "Blackhole", "BLAC\u{212a}HOLE", "blac\u{212a}hole", "BLACKHOLE\u{212a}", "\u{212a}", "NO_\u{212a}EER", "BLAC\u{212b}HOLE",
    "BL\u{c4}CKHOLE", "bl\u{e4}ckhole", "\u{130}", "no_export\u{130}", "Unrecognized", "unrecognized", "Unrecognized(1)", "GRACEFUL_SHUTDOWN", "gracefulshutdown",
    "LLGR_STALE", "NO_LLGR", "ACCEPT_OWN", "acceptown", "abc", "0", "1", "AS1", "65535", "\u{e9}:1", "1:\u{e9}", "AS\u{e9}:1", "rt:\u{e9}:1", "\u{e9}",
];

fn wk_names() -> Vec<String> {
    // every name the documentation table of `Wellknown` lists, plus the variant identifiers
    let mut v: Vec<String> = Vec::new();
    for n in 0..=65535u16 {
        let w = Wellknown::from_u16(n);
        if !matches!(w, Wellknown::Unrecognized(_)) {
            v.push(w.to_string());
            v.push(format!("{:?}", w));
        }
    }
    for s in ["ACCEPT_OWN_NEXTHOP", "standby-pe", "NO_PEER"] { v.push(s.to_string()); }
    v
}

fn recase(rng: &mut Rng, s: &str) -> String {
    s.chars().map(|c| match rng.below(3) { 0 => c.to_ascii_uppercase(), 1 => c.to_ascii_lowercase(), _ => c }).collect()
}

/// a malformed / odd variant of a valid text
fn mutate(rng: &mut Rng, s: &str) -> String {
    let mut cs: Vec<char> = s.chars().collect();
    let pos = |rng: &mut Rng, n: usize| rng.below(n as u64 + 1) as usize;
    match rng.below(12) {
        0 => { let p = pos(rng, cs.len()); cs.insert(p, '+'); }
        1 => { let p = pos(rng, cs.len()); cs.insert(p, '0'); }
        2 => { let p = pos(rng, cs.len()); cs.insert(p, ':'); }
        3 => { if !cs.is_empty() { let p = rng.below(cs.len() as u64) as usize; cs.remove(p); } }
        4 => { return recase(rng, s); }
        5 => { let p = pos(rng, cs.len()); cs.insert(p, *rng.pick(&[' ', '-', '_', '.', 'x', 'A', 'S', 'a', 's', 'f', 'F', 'g', '\u{e9}', '\u{212a}'])); }
        6 => { if !cs.is_empty() { let p = rng.below(cs.len() as u64) as usize; cs[p] = *rng.pick(&['0', '9', ':', '+', 'a', 'F', 'x', '.', '6']); } }
        7 => { cs.truncate(rng.below(cs.len() as u64 + 1) as usize); }
        8 => { let p = pos(rng, cs.len()); for _ in 0..rng.range(1, 30) { cs.insert(p, '0'); } }
        9 => { if cs.len() >= 2 { let p = rng.below(cs.len() as u64 - 1) as usize; cs.swap(p, p + 1); } }
        10 => { let d = rng.range(0, 9); cs.push(char::from(b'0' + d as u8)); }
        _ => { let t: String = cs.iter().collect(); return format!("{}{}", rng.pick(&["AS", "as", "As", "aS", "rt:", "ro:", "0x", "0X", "+", " "]), t); }
    }
    cs.into_iter().collect()
}

fn edgy32(rng: &mut Rng) -> u32 {
    match rng.below(10) {
        0 => *rng.pick(&[0u32, 1, 9, 10, 99, 100, 255, 256, 65534, 65535, 65536, 65537, 99999, 100000, 0x7fffffff, 0x80000000, 0xfffffffe, 0xffffffff,
                         999999999, 1000000000, 4294967295]),
        1 => rng.below(65536) as u32,
        2 => 10u32.pow(rng.below(10) as u32),
        3 => 10u32.pow(rng.below(10) as u32).wrapping_sub(1),
        _ => rng.u32(),
    }
}
fn edgy16(rng: &mut Rng) -> u16 {
    match rng.below(6) {
        0 => *rng.pick(&[0u16, 1, 9, 10, 99, 100, 255, 256, 999, 1000, 9999, 10000, 65534, 65535]),
        _ => rng.u16(),
    }
}
fn edgy8(rng: &mut Rng) -> u8 {
    match rng.below(4) { 0 => *rng.pick(&[0u8, 1, 9, 10, 15, 16, 99, 100, 199, 200, 249, 250, 254, 255]), _ => rng.u8() }
}

fn gen_ext(rng: &mut Rng, t: u8, s: u8) -> [u8; 8] {
    let mut r = [0u8; 8];
    r[0] = t; r[1] = s;
    match rng.below(4) {
        0 => { r[2..4].copy_from_slice(&edgy16(rng).to_be_bytes()); r[4..8].copy_from_slice(&edgy32(rng).to_be_bytes()); }
        1 => { r[2..6].copy_from_slice(&edgy32(rng).to_be_bytes()); r[6..8].copy_from_slice(&edgy16(rng).to_be_bytes()); }
        2 => { for i in 2..8 { r[i] = edgy8(rng); } }
        _ => { for i in 2..8 { r[i] = rng.u8(); } }
    }
    r
}

impl Prop for C19 {
    fn watchdog_s(&self) -> u64 { 600 }

    fn gen(&self, rng: &mut Rng, tier: Tier) -> Vec<String> {
        let thorough = tier == Tier::Thorough;
        let k: usize = if thorough { 40 } else { 1 };
        let mut v: Vec<String> = Vec::new();
        v.push("lowercheck".into());
        // raw round trip: every length 0..24 (only 4/8/12/20 are communities)
        for n in 0..=24usize { v.push(format!("raw {}", hex(&rng.bytes(n)))); }
        for _ in 0..200 * k { let n = *rng.pick(&[4usize, 8, 12, 20]); v.push(format!("raw {}", hex(&rng.bytes(n)))); }
        // the wellknown table, exhaustively: every u16 through from_u16 / to_u32 / Display ...
        for n in 0..=65535u32 { v.push(format!("wk {}", n)); }
        // ... and every well-known community (named and unrecognised) through all representations
        let wk_step = if thorough { 1 } else { 7 };
        for n in (0..=65535u32).step_by(wk_step) { v.push(format!("std ffff{:04x}", n)); }
        for n in [0u32, 1, 2, 3, 4, 5, 6, 7, 8, 9, 10, 0x29a, 0xff00, 0xff01, 0xff02, 0xff03, 0xff04, 0xff05, 0xffff] { v.push(format!("std ffff{:04x}", n)); }
        // reserved 0x0000xxxx and the private range: boundaries + random
        for a in [0u16, 1, 9, 10, 99, 100, 999, 1000, 9999, 10000, 65534, 65535, 0x00ff, 0xff00, 0xfffe] {
            for t in [0u16, 1, 9, 10, 99, 100, 999, 1000, 9999, 10000, 65534, 65535] {
                v.push(format!("std {:04x}{:04x}", a, t));
            }
        }
        for _ in 0..4000 * k { v.push(format!("std {:04x}{:04x}", edgy16(rng), edgy16(rng))); }
        for _ in 0..1000 * k { v.push(format!("std 0000{:04x}", rng.u16())); }
        // extended: every type octet x interesting sub-types, boundary and random values
        for t in 0..=255u8 {
            for s in [0u8, 1, 2, 3, 4, 0x0b, 0x40, 0x43, 0xff, t, rng.u8(), rng.u8()] {
                for _ in 0..(if [0u8, 1, 2, 0x43].contains(&t) && [2u8, 3].contains(&s) { 40 * k } else { k }) {
                    v.push(format!("ext {}", hex(&gen_ext(rng, t, s))));
                }
            }
        }
        // leading zero bytes: the hex text is also a shorter flavour's hex text with leading zeros
        for _ in 0..300 * k {
            let mut r = [0u8; 8];
            let z = rng.range(1, 8) as usize;
            for i in z..8 { r[i] = rng.u8(); }
            if r[1] == 2 || r[1] == 3 { r[1] = 0; }
            v.push(format!("ext {}", hex(&r)));
        }
        for r in [[0u8, 0, 0, 0, 0xff, 0xff, 0, 1], [0, 0, 0, 0, 0, 0, 0, 0], [0, 0, 0, 0, 0xff, 0xff, 0xff, 0xff], [0, 0, 0, 1, 0, 0, 0, 0],
                  [0, 2, 0, 0, 0, 0, 0, 0], [0, 2, 0xff, 0xff, 0xff, 0xff, 0xff, 0xff], [2, 2, 0, 0, 0xff, 0xff, 0, 0], [2, 2, 0, 1, 0, 0, 0, 0],
                  [2, 3, 0xff, 0xff, 0xff, 0xff, 0xff, 0xff], [1, 2, 0, 0, 0, 0, 0, 0], [1, 3, 255, 255, 255, 255, 255, 255], [1, 2, 10, 100, 200, 9, 0, 99]] {
            v.push(format!("ext {}", hex(&r)));
        }
        // zero octets in the MIDDLE: the hex text then reads as a shorter text followed by zeros and a few digits - e.g. the
        // text of ff ff 00 00 00 00 xx yy is `0xffff` + zeros + xxyy, which a lenient parser of the `0xFFFFnnnn` form of an
        // unrecognised well-known standard community would take (round-7 seed: Community::from_str tries Standard first)
        for _ in 0..200 * k {
            let mut r = rng.bytes(8);
            if rng.chance(1, 2) { r[0] = 0xff; r[1] = 0xff; }
            let (i, j) = { let i = rng.usize(1, 5); (i, rng.usize(i + 1, 7)) };
            for x in r.iter_mut().take(j).skip(i) { *x = 0; }
            if (r[0] & 0xbf) <= 2 && (r[1] == 2 || r[1] == 3) { r[1] = 0x0b; }
            v.push(format!("ext {}", hex(&r)));
        }
        for tail in [[0u8, 0x2d], [0, 1], [0xff, 0xff], [0x12, 0x34]] {
            v.push(format!("ext ffff00000000{}", hex(&tail)));
            v.push(format!("v6 ffff{}{}", "00".repeat(16), hex(&tail)));
            v.push(format!("v6 ffff0000{}{}", "00".repeat(12), hex(&[0xff, 0xff, tail[0], tail[1]])));
        }
        for _ in 0..100 * k {
            let mut r = rng.bytes(20);
            if rng.chance(1, 2) { r[0] = 0xff; r[1] = 0xff; }
            let (i, j) = { let i = rng.usize(1, 16); (i, rng.usize(i + 1, 19)) };
            for x in r.iter_mut().take(j).skip(i) { *x = 0; }
            if r[0] == 0 && r[1] == 2 { r[1] = 0; }
            v.push(format!("v6 {}", hex(&r)));
        }
        // large
        for _ in 0..3000 * k {
            let mut r = Vec::new();
            for _ in 0..3 { r.extend_from_slice(&edgy32(rng).to_be_bytes()); }
            v.push(format!("lrg {}", hex(&r)));
        }
        // ipv6 extended: every type octet, sub-types, leading zeros, random
        for t in 0..=255u8 {
            for s in [0u8, 2, 3, rng.u8()] {
                let mut r = rng.bytes(20); r[0] = t; r[1] = s;
                v.push(format!("v6 {}", hex(&r)));
            }
        }
        for _ in 0..400 * k {
            let mut r = vec![0u8; 20];
            let z = *rng.pick(&[1usize, 2, 4, 8, 11, 12, 13, 15, 16, 17, 19, 20]);
            for i in z..20 { r[i] = rng.u8(); }
            if r[0] == 0 && r[1] == 2 { r[1] = 0; }
            v.push(format!("v6 {}", hex(&r)));
        }
        // the std parsers the code relies on
        for t in NUM_TEXTS { for kd in ["d16", "d32", "x32", "x64"] { v.push(format!("pnum {} {}", kd, hex_of_text(t))); } }
        for _ in 0..300 * k {
            let base = match rng.below(4) { 0 => edgy32(rng).to_string(), 1 => format!("{:x}", rng.u64()), 2 => format!("{:X}", edgy32(rng)), _ => edgy16(rng).to_string() };
            let t = if rng.bool() { mutate(rng, &base) } else { base };
            v.push(format!("pnum {} {}", rng.pick(&["d16", "d32", "x32", "x64"]), hex_of_text(&t)));
        }
        for t in IP_TEXTS { v.push(format!("pip4 {}", hex_of_text(t))); }
        for _ in 0..300 * k {
            let base = format!("{}.{}.{}.{}", edgy8(rng), edgy8(rng), edgy8(rng), edgy8(rng));
            let t = if rng.chance(2, 3) { mutate(rng, &base) } else { base };
            v.push(format!("pip4 {}", hex_of_text(&t)));
        }
        // texts: all names and aliases in several spellings, odd texts, mutations of valid texts, through all parsers
        let names = wk_names();
        let mut texts: Vec<String> = Vec::new();
        for n in &names {
            texts.push(n.clone()); texts.push(n.to_uppercase()); texts.push(n.to_lowercase());
            texts.push(n.replace('_', "-")); texts.push(n.replace('_', "")); texts.push(n.replace('K', "\u{212a}").replace('k', "\u{212a}"));
            for _ in 0..3 { texts.push(recase(rng, n)); }
            texts.push(mutate(rng, n));
        }
        for t in ODD_TEXTS { texts.push(t.to_string()); }
        for _ in 0..1500 * k {
            let base = match rng.below(9) {
                0 => format!("AS{}:{}", edgy16(rng), edgy16(rng)),
                1 => format!("{}:{}", edgy32(rng), edgy32(rng)),
                2 => format!("{}:{}:{}", edgy32(rng), edgy32(rng), edgy32(rng)),
                3 => format!("{}:AS{}:{}", rng.pick(&["rt", "ro"]), edgy32(rng), edgy32(rng)),
                4 => format!("{}:{}.{}.{}.{}:{}", rng.pick(&["rt", "ro"]), edgy8(rng), edgy8(rng), edgy8(rng), edgy8(rng), edgy16(rng)),
                5 => format!("0x{:08X}", edgy32(rng)),
                6 => format!("0x{:016X}", rng.u64() >> (8 * rng.below(8))),
                7 => { let mut r = rng.bytes(20); let z = rng.below(20) as usize; for i in 0..z { r[i] = 0; } format!("0x{}", hex(&r)) }
                _ => rng.pick(&names).clone(),
            };
            texts.push(if rng.chance(3, 4) { mutate(rng, &base) } else { base });
        }
        for t in &texts {
            let h = hex_of_text(t);
            for op in ["pwk", "pstd", "plrg", "pext", "pv6", "pany"] { v.push(format!("{} {}", op, h)); }
        }
        // the implementation's own to_string -> from_str over ranges of u32 (thorough: all 2^32)
        if thorough {
            for i in 0..256u64 { v.push(format!("sweep {} {}", i << 24, (i + 1) << 24)); }
        } else {
            v.push("sweep 0 131072".into());
            v.push("sweep 4294836224 4294967296".into()); // 0xFFFE0000 .. 2^32: all well-known + the last private AS
            for _ in 0..6 { let lo = rng.below((1u64 << 32) - 65536); v.push(format!("sweep {} {}", lo, lo + 65536)); }
        }
        v
    }

    fn exec(&self, line: &str) -> String {
        let ws: Vec<&str> = line.split(' ').collect();
        match ws.as_slice() {
            ["std", h] => {
                let Some(raw) = arr::<4>(h) else { return "bad-op".into() };
                let c = StandardCommunity::from_raw(raw);
                // (tie coverage) the other ways in and out of the same four octets: From<[u8; 4]>, From<u32>,
                // from_wellknown / Wellknown::into_standard
                if StandardCommunity::from(raw) != c || StandardCommunity::from(c.to_u32()) != c { return "From<[u8;4]> / From<u32> differ from from_raw".into(); }
                if let Some(w) = c.to_wellknown() {
                    if StandardCommunity::from_wellknown(w) != c || w.into_standard() != c { return "from_wellknown / into_standard differ from from_raw".into(); }
                }
                let towk = match c.to_wellknown() { Some(w) => dbg(&w), None => "none".into() };
                format!("u32={} wk={} res={} priv={} asn={} tag={} towk={} {}", c.to_u32(), b01(c.is_wellknown()), b01(c.is_reserved()),
                    b01(c.is_private()), opt(c.asn().map(|a| a.into_u32())), opt(c.tag().map(|t| t.value())), towk,
                    triple(move || c.to_string(), |t| show_raw(StandardCommunity::from_str(t).map(|c| c.to_raw()))))
            }
            ["ext", h] => {
                let Some(raw) = arr::<8>(h) else { return "bad-op".into() };
                let c = ExtendedCommunity::from_raw(raw);
                #[allow(deprecated)]
                if ExtendedCommunity::from(raw) != c || c.raw() != raw { return "From<[u8;8]> / raw() differ from from_raw / to_raw".into(); }
                let (t, s) = c.types();
                format!("type={} sub={} trans={} as2={} as4={} ip4={} an2={} an4={} {}", dbg(&t), dbg(&s), b01(c.is_transitive()),
                    opt(c.as2().map(|a| a.to_u16())), opt(c.as4().map(|a| a.into_u32())),
                    match c.ip4() { Some(ip) => hex(&ip.octets()), None => "none".into() }, opt(c.an2()), opt(c.an4()),
                    triple(move || c.to_string(), |t| show_raw(ExtendedCommunity::from_str(t).map(|c| c.to_raw()))))
            }
            ["lrg", h] => {
                let Some(raw) = arr::<12>(h) else { return "bad-op".into() };
                let c = LargeCommunity::from_raw(raw);
                #[allow(deprecated)]
                if LargeCommunity::from(raw) != c || c.raw() != raw || c.asn().into_u32() != c.global() { return "From<[u8;12]> / raw() / asn() differ from from_raw / to_raw / global".into(); }
                format!("g={} l1={} l2={} {}", c.global(), c.local1(), c.local2(),
                    triple(move || c.to_string(), |t| show_raw(LargeCommunity::from_str(t).map(|c| c.to_raw()))))
            }
            ["v6", h] => {
                let Some(raw) = arr::<20>(h) else { return "bad-op".into() };
                let c = Ipv6ExtendedCommunity::from_raw(raw);
                #[allow(deprecated)]
                if Ipv6ExtendedCommunity::from(raw) != c || c.raw() != raw || c.local_admin() != c.an2() { return "From<[u8;20]> / raw() / local_admin() differ from from_raw / to_raw / an2".into(); }
                let text = c.to_string();
                // the rt:<ipv6>:<an2> form is not modelled (and does not parse back: the code says so itself)
                let tt = if text.starts_with("rt:") { "text=rt6 back=- eback=-".to_string() } else {
                    triple(move || text, |t| show_raw(Ipv6ExtendedCommunity::from_str(t).map(|c| c.to_raw())))
                };
                format!("trans={} an2={} {}", b01(c.is_transitive()), c.an2(), tt)
            }
            ["raw", h] => {
                let Some(bs) = unhex(h) else { return "bad-op".into() };
                let c: Community = match bs.len() {
                    4 => <[u8; 4]>::try_from(&bs[..]).unwrap().into(),
                    8 => <[u8; 8]>::try_from(&bs[..]).unwrap().into(),
                    12 => <[u8; 12]>::try_from(&bs[..]).unwrap().into(),
                    20 => <[u8; 20]>::try_from(&bs[..]).unwrap().into(),
                    _ => return "bad-op".into(),
                };
                format!("{} {}", show_any(Ok(c)), hex(c.as_ref()))
            }
            ["wk", n] => {
                let Ok(n) = n.parse::<u32>() else { return "bad-op".into() };
                if n > 65535 { return "bad-op".into(); }
                let w = Wellknown::from_u16(n as u16);
                let w2: Wellknown = (n as u16).into();
                if w != w2 { return "from_u16 and From<u16> differ".into(); }
                format!("{} u32={} text={}", dbg(&w), w.to_u32(), hex_of_text(&w.to_string()))
            }
            ["pwk", h] => {
                let Some(t) = text_of_hex(h) else { return "bad-op".into() };
                match Wellknown::from_str(&t) { Ok(w) => format!("ok {} {}", dbg(&w), w.to_u32()), Err(_) => "err".into() }
            }
            ["pstd", h] => { let Some(t) = text_of_hex(h) else { return "bad-op".into() }; show_raw(StandardCommunity::from_str(&t).map(|c| c.to_raw())) }
            ["pext", h] => { let Some(t) = text_of_hex(h) else { return "bad-op".into() }; show_raw(ExtendedCommunity::from_str(&t).map(|c| c.to_raw())) }
            ["plrg", h] => { let Some(t) = text_of_hex(h) else { return "bad-op".into() }; show_raw(LargeCommunity::from_str(&t).map(|c| c.to_raw())) }
            ["pv6", h] => { let Some(t) = text_of_hex(h) else { return "bad-op".into() }; show_raw(Ipv6ExtendedCommunity::from_str(&t).map(|c| c.to_raw())) }
            ["pany", h] => { let Some(t) = text_of_hex(h) else { return "bad-op".into() }; show_any(Community::from_str(&t)) }
            ["pip4", h] => {
                let Some(t) = text_of_hex(h) else { return "bad-op".into() };
                match std::net::Ipv4Addr::from_str(&t) { Ok(ip) => format!("ok:{}", hex(&ip.octets())), Err(_) => "err".into() }
            }
            ["pnum", kind, h] => {
                let Some(t) = text_of_hex(h) else { return "bad-op".into() };
                let r: Option<u64> = match *kind {
                    "d16" => u16::from_str(&t).ok().map(|v| v as u64),
                    "d32" => u32::from_str(&t).ok().map(|v| v as u64),
                    "x32" => u32::from_str_radix(&t, 16).ok().map(|v| v as u64),
                    "x64" => u64::from_str_radix(&t, 16).ok(),
                    _ => return "bad-op".into(),
                };
                match r { Some(v) => format!("ok {}", v), None => "err".into() }
            }
            ["lowercheck"] => {
                let mut out: Vec<String> = Vec::new();
                for cp in 0x80..=0x10FFFFu32 {
                    if let Some(c) = char::from_u32(cp) {
                        let s: String = c.to_string().to_lowercase();
                        if s.is_ascii() { out.push(format!("{:x}", cp)); }
                        // and in context (final-sigma rule etc.): a..c..a
                        let s2 = format!("a{}a", c).to_lowercase();
                        if s2.is_ascii() != s.is_ascii() { out.push(format!("ctx{:x}", cp)); }
                    }
                }
                if out.is_empty() { "none".into() } else { out.join(",") }
            }
            ["sweep", lo, hi] => {
                let (Ok(lo), Ok(hi)) = (lo.parse::<u64>(), hi.parse::<u64>()) else { return "bad-op".into() };
                if lo > hi || hi > 1 << 32 { return "bad-op".into(); }
                let (fails, first) = (lo..hi).into_par_iter().map(|v| if std_check(v as u32) { (0u64, u64::MAX) } else { (1, v) })
                    .reduce(|| (0, u64::MAX), |a, b| (a.0 + b.0, a.1.min(b.1)));
                format!("n={} fail={} first={}", hi - lo, fails, if first == u64::MAX { "none".to_string() } else { format!("{:08x}", first) })
            }
            _ => "bad-op".into(),
        }
    }

    fn oracle(&self, line: &str, reply: &str) -> Result<(), String> {
        let ws: Vec<&str> = line.split(' ').collect();
        if reply == "panic" && matches!(ws[0], "std" | "ext" | "lrg" | "v6" | "raw" | "wk" | "sweep") {
            return Err("panic while reading a community built from raw bytes".into());
        }
        let f = |k: &str| field(reply, k).unwrap_or("?").to_string();
        match ws.as_slice() {
            ["raw", h] => {
                let n = unhex(h).map(|b| b.len()).unwrap_or(0);
                let want = match n { 4 => "S", 8 => "E", 12 => "L", 20 => "V", _ => return Ok(()) };
                if reply != format!("{}:{} {}", want, h, h) { return Err(format!("raw bytes {} do not come back unchanged as flavour {}", h, want)); }
                Ok(())
            }
            ["std", h] => {
                let raw = arr::<4>(h).ok_or("?")?;
                let v = u32::from_be_bytes(raw);
                if f("u32") != v.to_string() { return Err("to_u32 is not the big-endian value of the raw bytes".into()); }
                let n = [f("wk"), f("res"), f("priv")].iter().filter(|x| *x == "1").count();
                if n != 1 { return Err(format!("in {} of the classes well-known / reserved / private", n)); }
                if f("wk") == "1" {
                    if f("asn") != "none" || f("tag") != "none" { return Err("asn/tag of a well-known community".into()); }
                } else if f("asn") != (v >> 16).to_string() || f("tag") != (v & 0xffff).to_string() {
                    return Err(format!("asn/tag {}:{} do not decompose {:08x}", f("asn"), f("tag"), v));
                }
                if f("back") != format!("ok:{}", h) { return Err(format!("text {:?} parses back as {}", text_of_hex(&f("text")), f("back"))); }
                if f("eback") != format!("S:{}", h) { return Err(format!("text {:?} parses through Community::from_str as {}", text_of_hex(&f("text")), f("eback"))); }
                Ok(())
            }
            ["lrg", h] => {
                if f("back") != format!("ok:{}", h) { return Err(format!("text {:?} parses back as {}", text_of_hex(&f("text")), f("back"))); }
                if f("eback") != format!("L:{}", h) { return Err(format!("text {:?} parses through Community::from_str as {}", text_of_hex(&f("text")), f("eback"))); }
                Ok(())
            }
            ["ext", h] => {
                let raw = arr::<8>(h).ok_or("?")?;
                if f("type") != ref_ext_type(raw[0]) { return Err(format!("type {} for type octet {:#04x}", f("type"), raw[0])); }
                if sub_code(&f("sub")) != Some(raw[1]) { return Err(format!("sub-type {} for sub-type octet {:#04x}", f("sub"), raw[1])); }
                if f("trans") != b01(raw[0] & 0x40 == 0) { return Err("transitivity does not follow bit 0x40 of the type octet".into()); }
                let text = text_of_hex(&f("text")).unwrap_or_default();
                let as4 = u32::from_be_bytes([raw[2], raw[3], raw[4], raw[5]]);
                let in_class = text.starts_with("0x")
                    || ((text.starts_with("rt:") || text.starts_with("ro:")) && (raw[0] == 0 || raw[0] == 1 || (raw[0] == 2 && as4 > 65535)));
                if in_class {
                    if f("back") != format!("ok:{}", h) { return Err(format!("text {:?} parses back as {}", text, f("back"))); }
                    if f("eback") != format!("E:{}", h) { return Err(format!("text {:?} parses through Community::from_str as {}", text, f("eback"))); }
                }
                Ok(())
            }
            ["v6", h] => {
                let raw = arr::<20>(h).ok_or("?")?;
                if f("trans") != b01(raw[0] & 0x40 == 0) { return Err("transitivity does not follow bit 0x40 of the type octet".into()); }
                if f("text") != "rt6" {
                    let text = text_of_hex(&f("text")).unwrap_or_default();
                    if text.starts_with("0x") {
                        if f("back") != format!("ok:{}", h) { return Err(format!("text {:?} parses back as {}", text, f("back"))); }
                        if f("eback") != format!("V:{}", h) { return Err(format!("text {:?} parses through Community::from_str as {}", text, f("eback"))); }
                    }
                }
                Ok(())
            }
            ["wk", n] => {
                // from_u16 -> to_u32 is the identity on the low 16 bits, in the well-known range
                let n: u32 = n.parse().map_err(|_| "?")?;
                if f("u32") != (0xffff0000u32 | n).to_string() { return Err(format!("Wellknown::from_u16({}).to_u32() = {}", n, f("u32"))); }
                Ok(())
            }
            ["sweep", ..] => {
                if f("fail") != "0" { return Err(format!("{} standard communities do not survive to_string -> from_str / classification (first {})", f("fail"), f("first"))); }
                Ok(())
            }
            _ => Ok(()),
        }
    }

    fn nontrivial(&self, _line: &str, reply: &str) -> bool { reply != "err" && reply != "bad-op" }

    fn class(&self, line: &str, reply: &str) -> String {
        let ws: Vec<&str> = line.split(' ').collect();
        let f = |k: &str| field(reply, k).unwrap_or("?").to_string();
        match ws[0] {
            "std" => {
                let kind = if f("wk") == "1" { if f("towk").starts_with("Unrecognized") { "wk-unrecognised" } else { "wk-named" } }
                    else if f("res") == "1" { "reserved" } else { "private" };
                format!("std:{}", kind)
            }
            "ext" => {
                let text = text_of_hex(&f("text")).unwrap_or_default();
                let form = if text.starts_with("0x") { "hex" } else if text.starts_with("rt:") { "rt" } else if text.starts_with("ro:") { "ro" } else { "?" };
                let t = f("type");
                let t = if t.starts_with("OtherType") { "OtherType".to_string() } else { t };
                format!("ext:{}:{}:{}", t, form, if f("back").starts_with("ok") { "back-ok" } else { "back-err" })
            }
            "v6" => format!("v6:{}", if f("text") == "rt6" { "rt6" } else { "hex" }),
            "pnum" | "pip4" | "pwk" | "pstd" | "plrg" | "pext" | "pv6" | "pany" => {
                let r = reply.split(|c| c == ' ' || c == ':').next().unwrap_or("");
                format!("{}:{}", ws[0], r)
            }
            op => op.to_string(),
        }
    }
}
