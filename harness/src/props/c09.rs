//! C09: stream framing (Connection::parse_frame / read_frame, read_message)
//! and "no byte stream from the peer panics the session task".
//!
//! Request lines (byte strings in hex, `-` = empty):
//!   feed <stream> <lens> <table>   push the chunks (lengths `a,b,c`, summing to |stream|) one by one,
//!                                  draining parse_frame after every push
//!   bytewise <stream> <table>      = feed with 1-byte chunks
//!   split2 <stream> <table>        every split of the stream into two chunks
//!   split3 <stream> <table>        every split into three non-empty chunks
//!   parts <stream> <table>         every composition of |stream| (2^(n-1) chunkings), n <= 22
//!   rm <k> <stream>                blocking read_message over a reader handing out <= k bytes per read (0: &[u8])
//!   hm <state> <d> <kind>          Session::handle_msg in every (state, delay-open-running, message kind)
//!   e2e <state> <d> <stream> <table>  bytes written to a loopback socket, Session::tick until error/EOF
//!   e2ed <state> <d> <stream> <table> like e2e, but the application has DROPPED its command sender before the first tick (what
//!                                  happens when the session is handed to Session::process()); after the run has ended
//!                                  (error / connection gone) tick() is called twice more under a 15 ms guard:
//!                                  ` after=<ok|err|pend>,..` (pend = still waiting: what the code does once nothing is left
//!                                  but its stopped timers; it must not panic)
//!   e2ec <state> <d> <stream> <lens> <table>  like e2e, but the peer writes the stream in the chunks <lens>; after every
//!                                  chunk but the last the application sends Command::GetAttributes and the session is
//!                                  ticked until it is idle (so tick() is cancelled / another select! arm fires while a
//!                                  frame is incomplete); reply: what reached the application, how the run ended, final
//!                                  state, outs, and same=1 iff the run with the stream written in one piece gives the same
//!   dec <cfg> <asn> <frame>        one frame through Message::from_octets(frame, Some(cfg)) and the accessors
//!                                  handle_msg / handle_event call (remote AS allowed = <asn>); the MODEL decides the
//!                                  verdict from the bytes itself with the concrete decoders (Rc/Model/SessionDecode.lean)
//! <table> = `*`: the model decides every frame itself with the concrete decoders (modern config, remote AS 65002), or
//! <table> = `off:len:v,...` decode verdicts (computed by the generator with the real
//! Message::from_octets, the model treats the per-type decoders as an abstract function given by
//! this table): e err, p panic, k keepalive, u update, n notification, r route refresh, A open (AS allowed),
//! B open (AS not allowed), C open (allowed AS, ADD-PATH capability does not parse).
use crate::common::*;
use bytes::Bytes;
use routecore::bgp::fsm::session::{BasicConfig, Command, Connection, Message as AppMsg, Session};
use routecore::bgp::fsm::state_machine::State;
use routecore::bgp::message::{Message as BgpMsg, SessionConfig};
use std::cell::RefCell;
use std::io::Read;

pub struct C09;

const LOCAL_AS: u32 = 65001;
const REMOTE_AS: u32 = 65002;

// ---------------------------------------------------------------------------
// environment: one current-thread runtime and one loopback pair per thread
// ---------------------------------------------------------------------------
struct Env {
    rt: tokio::runtime::Runtime,
    conn: Option<Connection>,
    _keep: Vec<std::net::TcpStream>,
}

thread_local! { static ENV: RefCell<Option<Env>> = RefCell::new(None); }

fn tcp_pair() -> (std::net::TcpStream, std::net::TcpStream) {
    let l = crate::retry_io!(std::net::TcpListener::bind("127.0.0.1:0"));
    let a = l.local_addr().unwrap();
    let c = crate::retry_io!(std::net::TcpStream::connect(a));
    let (s, _) = l.accept().unwrap();
    c.set_nodelay(true).ok();
    (s, c)
}

fn with_env<R>(f: impl FnOnce(&mut Env) -> R) -> R {
    ENV.with(|e| {
        let mut e = e.borrow_mut();
        if e.is_none() {
            let rt = tokio::runtime::Builder::new_current_thread().enable_all().build().unwrap();
            *e = Some(Env { rt, conn: None, _keep: vec![] });
        }
        f(e.as_mut().unwrap())
    })
}

fn new_connection(env: &mut Env) -> Connection {
    // one loopback pair per thread; every Connection gets a dup of its server end
    if env._keep.is_empty() {
        let (s, c) = tcp_pair();
        s.set_nonblocking(true).unwrap();
        env._keep.push(s);
        env._keep.push(c);
    }
    let s = env._keep[0].try_clone().unwrap();
    let _g = env.rt.enter();
    let t = tokio::net::TcpStream::from_std(s).unwrap();
    let (r, w) = t.into_split();
    w.forget(); // do not shut the shared socket's write side down
    Connection::for_read_half(r)
}

// ---------------------------------------------------------------------------
// parsing of request pieces
// ---------------------------------------------------------------------------
fn parse_lens(s: &str, total: usize) -> Option<Vec<usize>> {
    if s == "-" { return if total == 0 { Some(vec![]) } else { None }; }
    let v: Option<Vec<usize>> = s.split(',').map(|x| if x.is_empty() || x.len() > 6 || !x.bytes().all(|b| b.is_ascii_digit()) { None } else { x.parse().ok() }).collect();
    let v = v?;
    if v.iter().sum::<usize>() != total { return None; }
    Some(v)
}

/// table entries: (off, len, verdict)
fn parse_table(s: &str, total: usize) -> Option<Vec<(usize, usize, char)>> {
    if s == "-" || s == "*" { return Some(vec![]); }
    let mut out = vec![];
    for e in s.split(',') {
        let p: Vec<&str> = e.split(':').collect();
        if p.len() != 3 || p[2].len() != 1 { return None; }
        let num = |x: &str| -> Option<usize> { if x.is_empty() || x.len() > 6 || !x.bytes().all(|b| b.is_ascii_digit()) { None } else { x.parse().ok() } };
        let (o, l) = (num(p[0])?, num(p[1])?);
        let v = p[2].chars().next().unwrap();
        if !"epkunvABCr".contains(v) || o + l > total { return None; }
        out.push((o, l, v));
    }
    Some(out)
}

// ---------------------------------------------------------------------------
// the implementation side of a chunked feed
// ---------------------------------------------------------------------------
#[derive(Clone, PartialEq, Eq, Debug)]
enum End { Rest(usize), Err }

#[derive(Clone, PartialEq, Eq, Debug)]
struct RunRes { frames: Vec<Vec<u8>>, end: End, at: Vec<usize>, err_at: Option<usize> }

/// push chunk after chunk, drain parse_frame after every push (the session's read_frame loop
/// between two socket reads). A panic propagates to the run loop.
fn run_chunks(env: &mut Env, stream: &[u8], lens: &[usize]) -> RunRes {
    let mut conn = match env.conn.take() {
        Some(c) if c.verif_buffered() == 0 => c,
        _ => new_connection(env),
    };
    let mut res = RunRes { frames: vec![], end: End::Rest(0), at: vec![], err_at: None };
    let mut off = 0;
    'outer: for (i, n) in lens.iter().enumerate() {
        conn.verif_push_bytes(&stream[off..off + n]);
        off += n;
        for _ in 0..100_000 {
            match conn.verif_parse_frame() {
                Ok(Some(m)) => { res.frames.push(m.as_ref().to_vec()); res.at.push(i); }
                Ok(None) => continue 'outer,
                Err(_) => { res.end = End::Err; res.err_at = Some(i); break 'outer; }
            }
        }
        panic!("drain does not terminate");
    }
    if res.end != End::Err { res.end = End::Rest(conn.verif_buffered()); }
    env.conn = Some(conn);
    res
}

fn show_frames(fs: &[Vec<u8>]) -> String {
    if fs.is_empty() { "-".into() } else { fs.iter().map(|f| hex(f)).collect::<Vec<_>>().join(",") }
}
fn show_end(e: &End) -> String { match e { End::Rest(n) => format!("rest:{}", n), End::Err => "err".into() } }
fn show_at(r: &RunRes) -> String {
    let mut v: Vec<String> = r.at.iter().map(|x| x.to_string()).collect();
    if let Some(i) = r.err_at { v.push(format!("!{}", i)); }
    if v.is_empty() { "-".into() } else { v.join(",") }
}
fn show_run(r: &RunRes) -> String { format!("{} {} {}", show_frames(&r.frames), show_end(&r.end), show_at(r)) }

/// hash of the delivery positions of one run (same function in Rc/Drv/C09.lean)
fn at_hash(r: &RunRes) -> u64 {
    let mut h: u64 = 7;
    for x in &r.at { h = (h * 31 + *x as u64 + 1) % 1_000_000_007; }
    if let Some(i) = r.err_at { h = (h * 37 + i as u64 + 1) % 1_000_000_007; }
    h
}

/// base run (one chunk) + all variants: how many agree, combined hash of delivery positions
fn multi(env: &mut Env, stream: &[u8], variants: &mut dyn FnMut(&mut dyn FnMut(&[usize]))) -> String {
    let base = run_chunks(env, stream, &[stream.len()]);
    let (mut n, mut same, mut h) = (0u64, 0u64, 0u64);
    let mut first_diff: Option<String> = None;
    variants(&mut |lens: &[usize]| {
        let r = run_chunks(env, stream, lens);
        n += 1;
        if r.frames == base.frames && r.end == base.end { same += 1; }
        else if first_diff.is_none() {
            first_diff = Some(format!("{}=>{}/{}", lens.iter().map(|x| x.to_string()).collect::<Vec<_>>().join(","), show_frames(&r.frames), show_end(&r.end)));
        }
        h = (h * 1_000_003 + at_hash(&r)) % 1_000_000_007;
    });
    let mut s = format!("{} {} n={} same={} h={}", show_frames(&base.frames), show_end(&base.end), n, same, h);
    if let Some(d) = first_diff { s.push_str(&format!(" diff={}", d)); }
    s
}

fn compositions(n: usize, f: &mut dyn FnMut(&[usize])) {
    // every subset of the n-1 inner cut positions, in increasing mask order
    if n == 0 { return; }
    let mut lens: Vec<usize> = Vec::with_capacity(n);
    for mask in 0u64..(1u64 << (n - 1)) {
        lens.clear();
        let mut cur = 1;
        for i in 0..n - 1 {
            if mask >> i & 1 == 1 { lens.push(cur); cur = 1; } else { cur += 1; }
        }
        lens.push(cur);
        f(&lens);
    }
}

// ---------------------------------------------------------------------------
// independent reference: what the property says the session must extract
// ---------------------------------------------------------------------------
fn real_decode(frame: &[u8]) -> Result<BgpMsg<Bytes>, ()> {
    let cfg = SessionConfig::modern();
    BgpMsg::from_octets(Bytes::copy_from_slice(frame), Some(&cfg)).map_err(|_| ())
}

fn verdict_of(frame: &[u8]) -> char {
    let r = std::panic::catch_unwind(|| match real_decode(frame) {
        Err(()) => 'e',
        Ok(BgpMsg::Keepalive(_)) => 'k',
        Ok(BgpMsg::Update(_)) => 'u',
        // a version-error NOTIFICATION (2/1) raises NotifMsgVerErr, any other one NotifMsg
        Ok(BgpMsg::Notification(n)) => if frame.len() >= 21 && frame[19] == 2 && frame[20] == 1 { let _ = n; 'v' } else { 'n' },
        Ok(BgpMsg::RouteRefresh(_)) => 'r',
        Ok(BgpMsg::Open(o)) => {
            if o.my_asn() != inetnum::asn::Asn::from_u32(REMOTE_AS) { 'B' }
            else if o.addpath_families_vec().is_err() { 'C' } else { 'A' }
        }
    });
    r.unwrap_or('p')
}

/// `dec`: what the session does with one complete frame before the FSM acts on it
/// (session.rs: parse_frame -> handle_msg -> the OPEN-accepting arms of handle_event).
/// A panic propagates to the run loop.
fn run_dec(cfg: &SessionConfig, allowed: u32, frame: &[u8]) -> String {
    use routecore::bgp::message::notification::{Details, OpenMessageSubcode};
    match BgpMsg::from_octets(Bytes::copy_from_slice(frame), Some(cfg)) {
        Err(_) => "err".into(),
        Ok(BgpMsg::Keepalive(_)) => "k".into(),
        Ok(BgpMsg::Update(_)) => "u".into(),
        Ok(BgpMsg::RouteRefresh(_)) => "r".into(),
        Ok(BgpMsg::Notification(n)) => {
            if matches!(n.details(), Details::OpenMessageError(OpenMessageSubcode::UnsupportedVersionNumber)) { "v".into() } else { "n".into() }
        }
        Ok(BgpMsg::Open(o)) => {
            let asn = o.my_asn();
            if asn != inetnum::asn::Asn::from_u32(allowed) { return format!("B asn={}", asn.into_u32()); }
            let Ok(ap) = o.addpath_families_vec() else { return format!("C asn={}", asn.into_u32()); };
            let hold = o.holdtime();
            let id: [u8; 4] = o.identifier()[0..4].try_into().unwrap();
            let asn2 = o.my_asn();
            let four = o.four_octet_capable();
            let aps: Vec<String> = ap.into_iter().map(|(f, d)| { let (a, s): (u16, u8) = f.into(); format!("{}/{}/{}", a, s, u8::from(d)) }).collect();
            format!("A asn={} hold={} id={} four={} ap={}", asn2.into_u32(), hold, hex(&id), four as u8, if aps.is_empty() { "-".into() } else { aps.join(",") })
        }
    }
}

/// what RFC 4271 section 4 says about a frame without looking into OPEN / UPDATE bodies:
/// Some(reply) when the reply is determined by the header (and, for the two fixed-layout
/// types, the length), None when it depends on the OPEN / UPDATE content
fn dec_reference(frame: &[u8]) -> Option<&'static str> {
    if frame.len() < 19 || frame[..16] != [0xffu8; 16] { return Some("err"); }
    let len = u16::from_be_bytes([frame[16], frame[17]]) as usize;
    match frame[18] {
        1 => if len != frame.len() || len < 29 { Some("err") } else { None },
        2 => if len < 23 || len > frame.len() { Some("err") } else { None },
        3 => if len != frame.len() || len < 21 { Some("err") } else if frame[19] == 2 && frame[20] == 1 { Some("v") } else { Some("n") },
        4 => if len == 19 && frame.len() == 19 { Some("k") } else { Some("err") },
        // a well-formed ROUTE-REFRESH of RFC 2918 (exactly 23 octets) is recognised (K13 repaired: F36); RFC 7313 adds
        // longer ones, which RFC 4271 / 2918 do not know: their fate is left free (refused, or recognised)
        5 => if len != frame.len() || len < 23 { Some("err") } else if len == 23 { Some("r") } else { None },
        _ => Some("err"),
    }
}

/// a well-formed ROUTE-REFRESH (see `dec_reference`): RFC 2918's has exactly 23 octets and must be delivered (since the
/// repair of K13); the fate of a longer one (RFC 7313) is left free
fn is_wellformed_rr(f: &[u8]) -> bool {
    f.len() >= 23 && f[..16] == [0xffu8; 16] && u16::from_be_bytes([f[16], f[17]]) as usize == f.len() && f[18] == 5
}
fn is_rfc2918_rr(f: &[u8]) -> bool { is_wellformed_rr(f) && f.len() == 23 }

/// How the frame at the head of `rest` must fare, from RFC 4271 section 4.1 and the property text alone.
/// The property fixes the outcome only for (a) complete BGP messages (delivered, exactly their bytes), (b) a
/// length field below 19 and (c) a wrong marker (error, never a panic, never delivered). It does not say WHEN a bad
/// header is refused (at once, or when the announced octets have arrived), nothing about frames longer than RFC
/// 4271's 4096 octets, and nothing about the longer ROUTE-REFRESH of RFC 7313 – there either outcome is accepted.  A
/// ROUTE-REFRESH of RFC 2918 (23 octets) is a BGP message: it must be delivered (K13 repaired).
#[derive(Clone, Copy, PartialEq, Eq, Debug)]
enum Fate { Deliver, Refuse, Either, WaitFor(usize), WaitOrRefuse(usize) }

fn head_fate(rest: &[u8]) -> (Fate, usize) {
    let rem = rest.len();
    let bad_marker = rest.iter().take(16).any(|b| *b != 0xff);
    if rem < 18 {
        // header incomplete: wait; a marker octet that is already wrong may be refused at once
        return (if bad_marker { Fate::WaitOrRefuse(rem) } else { Fate::WaitFor(rem) }, 0);
    }
    let len = u16::from_be_bytes([rest[16], rest[17]]) as usize;
    if len < 19 { return (Fate::Refuse, 0); }
    if rem < len {
        // the offending / oversized frame is incomplete: lazy (`rest:n`) or eager (`err`) refusal
        return (if bad_marker || len > 4096 { Fate::WaitOrRefuse(rem) } else { Fate::WaitFor(rem) }, 0);
    }
    let f = &rest[..len];
    if bad_marker { return (Fate::Refuse, len); }
    if is_rfc2918_rr(f) { return (Fate::Deliver, len); }
    if len > 4096 || is_wellformed_rr(f) { return (Fate::Either, len); }
    // (audit r5 S6d) decided WITHOUT the implementation wherever RFC 4271 section 4 decides it: KEEPALIVE / NOTIFICATION by
    // their fixed layout, an OPEN that the strict reference decoder of C03 accepts, an UPDATE that only withdraws IPv4
    // prefixes (or is empty).  A well-formed message of these classes that the implementation refuses - consistently, in
    // every chunking (the K13 class of defect) - is a violation.  Only for the remaining OPEN / UPDATE contents the
    // implementation's own decoder says whether the frame is a message (their decoding is C01..C03's subject).
    match independent_fate(f) {
        Some(true) => return (Fate::Deliver, len),
        Some(false) => return (Fate::Refuse, len),
        None => {}
    }
    match std::panic::catch_unwind(|| real_decode(f).is_ok()) {
        Ok(true) => (Fate::Deliver, len),
        _ => (Fate::Refuse, len),
    }
}

/// `Some(true)`: a BGP message by RFC 4271 section 4 alone, `Some(false)`: not one, `None`: depends on OPEN / UPDATE content
/// this reference does not read.  `f` is a complete frame with a good marker, 19 <= length field = `f.len()` <= 4096.
fn independent_fate(f: &[u8]) -> Option<bool> {
    match dec_reference(f) { Some("err") => return Some(false), Some(_) => return Some(true), None => {} }
    match f[18] {
        1 => if super::c03::ref_decode_open(f).is_some() { Some(true) } else { None },
        2 => {
            // RFC 4271 4.3: withdrawn routes length, the (length, prefix) pairs, total path attribute length 0, no NLRI
            let b = &f[19..];
            if b.len() < 4 { return None; }
            let wl = u16::from_be_bytes([b[0], b[1]]) as usize;
            if b.len() != 4 + wl || b[2 + wl] != 0 || b[3 + wl] != 0 { return None; }
            let w = &b[2..2 + wl];
            let mut i = 0;
            while i < w.len() {
                let l = w[i] as usize;
                let n = (l + 7) / 8;
                if l > 32 || i + 1 + n > w.len() { return None; }
                if l % 8 != 0 && w[i + n] & (0xffu8 >> (l % 8)) != 0 { return None; }
                i += 1 + n;
            }
            Some(true)
        }
        _ => None,
    }
}

/// (audit r5 S6c) `e2e` lines: a ROUTE-REFRESH of RFC 2918 among the frames of the stream is a message the session extracts
/// and goes on from ("each once and in order"): the tick that reads it returns Ok in the state the session was in, and
/// the session is not torn down by it (another tick follows: the next frame, or the end of the stream).  Judged while
/// the frames before it are complete frames whose ticks returned Ok; a session with a running DelayOpenTimer is not
/// judged (a timer tick may fall between two frames).
fn judge_e2e_rr(st: &str, d: &str, stream: &[u8], reply: &str) -> Result<(), String> {
    if d != "0" { return Ok(()); }
    let ticks: Vec<&str> = reply.split(' ').next().unwrap_or("").split(',').collect();
    let mut prev = st.to_string();
    let mut o = 0;
    for (i, t) in ticks.iter().enumerate() {
        if stream.len() - o < 19 { return Ok(()); }
        let len = u16::from_be_bytes([stream[o + 16], stream[o + 17]]) as usize;
        if len < 19 || stream.len() - o < len { return Ok(()); }
        let f = &stream[o..o + len];
        if is_rfc2918_rr(f) {
            if *t != format!("ok:{}", prev) {
                return Err(format!("tick #{} reads a well-formed ROUTE-REFRESH in state {}: it must be ignored (Ok, same state), the session answered `{}`", i, prev, t));
            }
            if i + 1 == ticks.len() && ticks.len() < 24 {
                return Err(format!("the session stopped after the ROUTE-REFRESH read by tick #{}: the messages after it are never extracted", i));
            }
        }
        match t.strip_prefix("ok:") { Some(x) => prev = x.to_string(), None => return Ok(()) }
        o += len;
    }
    Ok(())
}

/// the property on one run: the frames the implementation extracted (hex, in order) and how the run ended
/// (`rest:<n>` / `err`)
fn judge_run(stream: &[u8], frames: &str, end: &str) -> Result<(), String> {
    let got: Vec<&str> = if frames == "-" { vec![] } else { frames.split(',').collect() };
    let mut o = 0;
    let mut i = 0;
    loop {
        let (fate, len) = head_fate(&stream[o..]);
        let delivered_here = i < got.len() && len > 0 && got[i] == hex(&stream[o..o + len]);
        let stop = |want: &str| -> Result<(), String> {
            if i < got.len() { return Err(format!("frames extracted differ from the messages on the wire: frame #{} `{}` is not a message at offset {}", i, trunc80(got[i]), o)); }
            let ok = match fate {
                Fate::WaitFor(n) => end == format!("rest:{}", n),
                Fate::WaitOrRefuse(n) => end == format!("rest:{}", n) || end == "err",
                _ => end == "err",
            };
            if ok { Ok(()) } else { Err(format!("stream must end in `{}`, implementation says `{}`", want, end)) }
        };
        match fate {
            Fate::Deliver => {
                if !delivered_here { return Err(format!("frames extracted differ from the messages on the wire: expected {} as frame #{}", trunc80(&hex(&stream[o..o + len])), i)); }
            }
            Fate::Either => { if !delivered_here { return stop("err"); } }
            Fate::Refuse => return stop("err"),
            Fate::WaitFor(n) => return stop(&format!("rest:{}", n)),
            Fate::WaitOrRefuse(n) => return stop(&format!("rest:{}` or `err", n)),
        }
        i += 1;
        o += len;
    }
}

/// reference framing written from RFC 4271 section 4.1: the longest sequence of frames a conforming session may
/// extract (frames whose fate is free are taken as delivered)
fn reference(stream: &[u8]) -> Vec<Vec<u8>> {
    let mut o = 0;
    let mut frames = vec![];
    loop {
        match head_fate(&stream[o..]) {
            (Fate::Deliver | Fate::Either, len) => { frames.push(stream[o..o + len].to_vec()); o += len; }
            _ => return frames,
        }
    }
}

fn table_for(stream: &[u8]) -> String {
    // verdicts for every frame the reference cutter reaches (including the one it stops at)
    let mut o = 0;
    let mut v = vec![];
    loop {
        let rem = stream.len() - o;
        if rem < 18 { break; }
        let len = u16::from_be_bytes([stream[o + 16], stream[o + 17]]) as usize;
        if len < 18 || rem < len { break; }
        let c = verdict_of(&stream[o..o + len]);
        v.push(format!("{}:{}:{}", o, len, c));
        if c == 'e' || c == 'p' || len == 18 { break; }
        o += len;
    }
    if v.is_empty() { "-".into() } else { v.join(",") }
}

// ---------------------------------------------------------------------------
// message generators (reference encoders written from RFC 4271 / 4760 / 6793)
// ---------------------------------------------------------------------------
fn with_header(typ: u8, body: &[u8]) -> Vec<u8> {
    let mut m = vec![0xffu8; 16];
    m.extend_from_slice(&((19 + body.len()) as u16).to_be_bytes());
    m.push(typ);
    m.extend_from_slice(body);
    m
}
fn keepalive() -> Vec<u8> { with_header(4, &[]) }
fn notification(code: u8, sub: u8, data: &[u8]) -> Vec<u8> {
    let mut b = vec![code, sub];
    b.extend_from_slice(data);
    with_header(3, &b)
}
fn open_msg(asn: u32, hold: u16, id: [u8; 4], four_octet: bool, mp: &[(u16, u8)], addpath: Option<&[u8]>) -> Vec<u8> {
    let mut caps: Vec<u8> = vec![];
    for (a, s) in mp { caps.extend_from_slice(&[1, 4]); caps.extend_from_slice(&a.to_be_bytes()); caps.extend_from_slice(&[0, *s]); }
    if four_octet { caps.extend_from_slice(&[65, 4]); caps.extend_from_slice(&asn.to_be_bytes()); }
    if let Some(v) = addpath { caps.extend_from_slice(&[69, v.len() as u8]); caps.extend_from_slice(v); }
    let mut b = vec![4u8];
    let as2 = if asn > 65535 { 23456u16 } else { asn as u16 };
    b.extend_from_slice(&as2.to_be_bytes());
    b.extend_from_slice(&hold.to_be_bytes());
    b.extend_from_slice(&id);
    if caps.is_empty() { b.push(0); } else {
        b.push((caps.len() + 2) as u8);
        b.push(2); b.push(caps.len() as u8);
        b.extend_from_slice(&caps);
    }
    with_header(1, &b)
}
fn prefix4(rng: &mut Rng) -> Vec<u8> {
    let l = *rng.pick(&[0u8, 8, 16, 24, 32, 13, 22]);
    let n = ((l as usize) + 7) / 8;
    let mut v = vec![l];
    let mut p = rng.bytes(n);
    if l % 8 != 0 && n > 0 { let keep = 0xffu8 << (8 - l % 8); p[n - 1] &= keep; }
    v.extend_from_slice(&p);
    v
}
fn update_msg(rng: &mut Rng) -> Vec<u8> {
    let mut wd = vec![];
    for _ in 0..rng.below(3) { wd.extend(prefix4(rng)); }
    let mut nlri = vec![];
    for _ in 0..rng.below(4) { nlri.extend(prefix4(rng)); }
    let mut attrs = vec![];
    if !nlri.is_empty() || rng.chance(1, 4) {
        attrs.extend_from_slice(&[0x40, 1, 1, rng.below(3) as u8]); // ORIGIN
        let hops = rng.below(4) as usize; // AS_PATH, 4-octet
        if hops == 0 { attrs.extend_from_slice(&[0x40, 2, 0]); } else {
            attrs.extend_from_slice(&[0x40, 2, (2 + 4 * hops) as u8, 2, hops as u8]);
            for _ in 0..hops { attrs.extend_from_slice(&(rng.u32() % 400000).to_be_bytes()); }
        }
        attrs.extend_from_slice(&[0x40, 3, 4, 10, 0, 0, rng.u8()]); // NEXT_HOP
        if rng.bool() { attrs.extend_from_slice(&[0x80, 4, 4]); attrs.extend_from_slice(&rng.u32().to_be_bytes()); } // MED
        if rng.chance(1, 3) { let n = rng.usize(1, 3); attrs.extend_from_slice(&[0xc0, 8, (4 * n) as u8]); attrs.extend(rng.bytes(4 * n)); }
    }
    let mut b = vec![];
    b.extend_from_slice(&(wd.len() as u16).to_be_bytes()); b.extend(wd);
    b.extend_from_slice(&(attrs.len() as u16).to_be_bytes()); b.extend(attrs);
    b.extend(nlri);
    with_header(2, &b)
}
fn route_refresh() -> Vec<u8> { with_header(5, &[0, 1, 0, 1]) }

fn good_open(rng: &mut Rng) -> Vec<u8> {
    let mp: Vec<(u16, u8)> = match rng.below(3) { 0 => vec![], 1 => vec![(1, 1)], _ => vec![(1, 1), (2, 1)] };
    let ap: Option<Vec<u8>> = if rng.chance(1, 3) { Some(vec![0, 1, 1, rng.range(1, 3) as u8]) } else { None };
    open_msg(REMOTE_AS, *rng.pick(&[0u16, 3, 90, 180]), [10, 0, 0, rng.u8()], true, &mp, ap.as_deref())
}
fn badas_open(rng: &mut Rng) -> Vec<u8> { open_msg(*rng.pick(&[1u32, 64999, 65001, 200000]), 90, [10, 0, 0, 2], true, &[(1, 1)], None) }
fn badaddpath_open() -> Vec<u8> { open_msg(REMOTE_AS, 90, [10, 0, 0, 2], true, &[(1, 1)], Some(&[0, 1, 1, 0])) }

fn any_msg(rng: &mut Rng) -> Vec<u8> {
    match rng.below(12) {
        0 | 1 | 2 => keepalive(),
        3 | 4 | 5 | 6 => update_msg(rng),
        7 => { let n = rng.below(6) as usize; notification(rng.range(1, 6) as u8, rng.below(9) as u8, &rng.bytes(n)) }
        8 | 9 => good_open(rng),
        10 => badas_open(rng),
        _ => if rng.bool() { badaddpath_open() } else { route_refresh() },
    }
}

/// a stream that is not (only) well-formed messages
fn malformed(rng: &mut Rng) -> Vec<u8> {
    let mut s: Vec<u8> = vec![];
    for _ in 0..rng.below(3) { s.extend(any_msg(rng)); }
    let mut m = any_msg(rng);
    match rng.below(9) {
        0 => { let v = rng.below(19) as u16; m[16..18].copy_from_slice(&v.to_be_bytes()); }      // length below minimum
        1 => { let i = rng.below(16) as usize; m[i] = rng.u8(); }                                // marker
        2 => { let v = (m.len() as u16).wrapping_add(*rng.pick(&[1u16, 2, 0xffff, 19, 4096])); m[16..18].copy_from_slice(&v.to_be_bytes()); }
        3 => { m[18] = *rng.pick(&[0u8, 5, 6, 7, 255]); }                                        // type
        4 => { let k = rng.below(m.len() as u64) as usize; m.truncate(k); }                      // truncated
        5 => { let i = rng.below(m.len() as u64) as usize; m[i] ^= 1 << rng.below(8); }          // bit flip
        6 => { let n = rng.usize(0, 60); m = rng.bytes(n); }                                                // noise
        7 => { m[16] = 0; m[17] = *rng.pick(&[0u8, 1, 17, 18]); let i = rng.below(16) as usize; m[i] = 0; } // both wrong
        _ => { let i = rng.usize(19.min(m.len() - 1), m.len() - 1); m[i] = rng.u8(); }           // body byte
    }
    s.extend(m);
    if rng.bool() { s.extend(any_msg(rng)); }
    s
}

/// single frames for the `dec` op
fn gen_dec(rng: &mut Rng, scale: usize, v: &mut Vec<String>) {
    use crate::props::{c01, c02, c03, c15};
    let line = |cfg: &str, asn: u32, f: &[u8]| format!("dec {} {} {}", cfg, asn, hex(f));
    // what the real decoder says the OPEN's AS is (only to aim the `allowed` argument)
    let real_asn = |f: &[u8]| -> Option<u32> {
        std::panic::catch_unwind(|| routecore::bgp::message::OpenMessage::from_octets(f).ok().map(|o| o.my_asn().into_u32())).ok().flatten()
    };
    // boundary cases
    for f in [keepalive(), notification(2, 1, &[0, 4]), notification(2, 1, &[]), notification(2, 2, &[]), notification(1, 1, &[]),
              notification(0, 1, &[]), notification(4, 1, &[]), with_header(3, &[2]), with_header(3, &[]), with_header(4, &[0]),
              route_refresh(), with_header(0, &[]), with_header(6, &[]), with_header(255, &[1, 2, 3]), with_header(2, &[0, 0, 0, 0]),
              with_header(2, &[0, 0, 0]), with_header(2, &[0, 0, 0, 0, 24, 10, 0, 0]), with_header(1, &[4, 0xfd, 0xea, 0, 90, 10, 0, 0, 2, 0]),
              with_header(1, &[4, 0xfd, 0xea, 0, 90, 10, 0, 0, 2]), badaddpath_open()] {
        for cfg in ["4", "2", "4,1.1.b"] { v.push(line(cfg, REMOTE_AS, &f)); }
        for k in 0..f.len() { v.push(line("4", REMOTE_AS, &f[..k])); }
    }
    for i in 0..(2400 * scale) {
        let cfg_any = c02::gen_cfg(rng);
        let (cfg, mut f): (String, Vec<u8>) = match i % 8 {
            0 => (cfg_any, keepalive()),
            1 => { let n = rng.below(6) as usize; (cfg_any, notification(if rng.chance(1, 3) { 2 } else { rng.below(8) as u8 }, rng.below(4) as u8, &rng.bytes(n))) }
            2 => (cfg_any, if rng.bool() { good_open(rng) } else if rng.bool() { badas_open(rng) } else { badaddpath_open() }),
            3 | 4 => (cfg_any, c15::gen_open(rng)),
            5 => (cfg_any, update_msg(rng)),
            6 => { let (c, content) = c01::gen_case(rng, Some(i / 8 % 15), 200); (c01::cfg_token(&c), c01::ref_encode(&c, &content)) }
            _ => (cfg_any, if rng.bool() { route_refresh() } else { with_header(*rng.pick(&[0u8, 5, 6, 7, 200]), &rng.bytes(4)) }),
        };
        // half of them malformed
        if i % 16 >= 8 {
            f = match f.get(18) {
                Some(1) => c03::mutate(rng, &f),
                Some(2) => { let other = update_msg(rng); c02::mutate(rng, f, &other) }
                _ => {
                    if f.is_empty() { f } else {
                    match rng.below(6) {
                        0 => { let i = rng.usize(0, f.len() - 1); f[i] ^= 1 << rng.below(8); f }
                        1 => { let k = rng.usize(0, f.len()); f.truncate(k); f }
                        2 => { let n = rng.usize(1, 4); f.extend(rng.bytes(n)); f }
                        3 => { let l = (f.len() as u16).wrapping_add(*rng.pick(&[1u16, 0xffff, 2])); f[16..18].copy_from_slice(&l.to_be_bytes()); f }
                        4 => { f[18] = rng.below(7) as u8; f }
                        _ => { let k = rng.usize(0, f.len()); f.truncate(k); if f.len() >= 18 { let l = f.len() as u16; f[16..18].copy_from_slice(&l.to_be_bytes()); } f }
                    } }
                }
            };
        }
        let asn = match rng.below(4) { 0 => REMOTE_AS, 1 => rng.u32(), _ => real_asn(&f).unwrap_or(REMOTE_AS) };
        v.push(line(&cfg, asn, &f));
        // the same frame under an unrelated configuration (ASN width, ADD-PATH table)
        if i % 5 == 0 { v.push(line(&c02::gen_cfg(rng), asn, &f)); }
    }
    v.push("dec 4 65002 zz".into());
    v.push("dec 3 65002 00".into());
    v.push("dec 4 4294967296 00".into());
}

/// C09 takes the message decoders (from_octets + the OPEN accessors the FSM calls) as a total
/// function; a frame on which they panic (defect F9, owned by C03) is outside its generator.
fn decoders_total(table: &str) -> bool { !table.contains(":p") }

fn random_lens(rng: &mut Rng, total: usize) -> Vec<usize> {
    let mut v = vec![];
    let mut left = total;
    while left > 0 {
        let n = match rng.below(5) { 0 => 1, 1 => rng.usize(1, 4), 2 => rng.usize(1, 19), 3 => rng.usize(1, 40), _ => rng.usize(1, left) }.min(left);
        v.push(n);
        left -= n;
    }
    v
}
fn lens_str(v: &[usize]) -> String { if v.is_empty() { "-".into() } else { v.iter().map(|x| x.to_string()).collect::<Vec<_>>().join(",") } }

// ---------------------------------------------------------------------------
// read_message
// ---------------------------------------------------------------------------
struct ChunkReader<'a> { data: &'a [u8], pos: usize, k: usize }
impl<'a> Read for ChunkReader<'a> {
    fn read(&mut self, buf: &mut [u8]) -> std::io::Result<usize> {
        let n = buf.len().min(self.k).min(self.data.len() - self.pos);
        buf[..n].copy_from_slice(&self.data[self.pos..self.pos + n]);
        self.pos += n;
        Ok(n)
    }
}

fn hash_bytes(b: &[u8]) -> u64 {
    let mut h: u64 = 0;
    for x in b { h = (h * 31 + *x as u64) % 4294967296; }
    h
}
fn show_slice(b: &[u8]) -> String {
    if b.len() <= 48 { format!("some:{}:{}", b.len(), hex(b)) } else { format!("some:{}:#{}", b.len(), hash_bytes(b)) }
}

fn run_rm(k: usize, stream: &[u8]) -> String {
    use routecore::bgp::message::read_message;
    let mut buf = Box::new([0u8; 4096]);
    let mut out = vec![];
    let mut go = |r: &mut dyn Read| {
        for _ in 0..8 {
            let mut rr: &mut dyn Read = r;
            match read_message(&mut rr, &mut buf) {
                Ok(Some(s)) => out.push(show_slice(s)),
                Ok(None) => { out.push("none".into()); break; }
                Err(_) => { out.push("err".into()); break; }
            }
        }
    };
    if k == 0 { let mut s: &[u8] = stream; go(&mut s); } else { let mut r = ChunkReader { data: stream, pos: 0, k }; go(&mut r); }
    out.join(" ")
}

// ---------------------------------------------------------------------------
// FSM side
// ---------------------------------------------------------------------------
const KINDS: &[&str] = &["open", "open-badas", "open-badaddpath", "update", "notification", "notification-vererr", "keepalive", "routerefresh"];

fn kind_msg(kind: &str) -> Option<BgpMsg<Bytes>> {
    let cfg = SessionConfig::modern();
    let b = |v: Vec<u8>| Bytes::from(v);
    use routecore::bgp::message::*;
    Some(match kind {
        "open" => BgpMsg::Open(OpenMessage::from_octets(b(open_msg(REMOTE_AS, 90, [10, 0, 0, 2], true, &[(1, 1)], Some(&[0, 1, 1, 3])))).ok()?),
        "open-badas" => BgpMsg::Open(OpenMessage::from_octets(b(open_msg(64999, 90, [10, 0, 0, 2], true, &[(1, 1)], None))).ok()?),
        "open-badaddpath" => BgpMsg::Open(OpenMessage::from_octets(b(badaddpath_open())).ok()?),
        "update" => BgpMsg::Update(UpdateMessage::from_octets(b(with_header(2, &[0, 0, 0, 0])), &cfg).ok()?),
        "notification" => BgpMsg::Notification(NotificationMessage::from_octets(b(notification(6, 2, &[]))).ok()?),
        "notification-vererr" => BgpMsg::Notification(NotificationMessage::from_octets(b(notification(2, 1, &[0, 4]))).ok()?),
        "keepalive" => BgpMsg::Keepalive(KeepaliveMessage::from_octets(b(keepalive())).ok()?),
        "routerefresh" => BgpMsg::RouteRefresh(RouteRefreshMessage::from_octets(b(route_refresh())).ok()?),
        _ => return None,
    })
}

fn state_of(n: u16) -> State { State::from(n) }
fn state_no(s: State) -> u16 { s.into() }

struct Sess {
    s: Session<BasicConfig>,
    pdu_rx: tokio::sync::mpsc::Receiver<BgpMsg<Bytes>>,
    app_rx: tokio::sync::mpsc::Receiver<AppMsg>,
    cmd_tx: tokio::sync::mpsc::Sender<Command>,
    client: tokio::net::TcpStream,
    _w: tokio::net::tcp::OwnedWriteHalf,
}

async fn new_session() -> Sess {
    let l = crate::retry_io!(tokio::net::TcpListener::bind("127.0.0.1:0").await);
    let a = l.local_addr().unwrap();
    let client = crate::retry_io!(tokio::net::TcpStream::connect(a).await);
    let (srv, _) = l.accept().await.unwrap();
    client.set_nodelay(true).ok();
    let (r, w) = srv.into_split();
    let cfg = BasicConfig::new(
        inetnum::asn::Asn::from_u32(LOCAL_AS), [10, 0, 0, 1], "127.0.0.1".parse().unwrap(),
        inetnum::asn::Asn::from_u32(REMOTE_AS), None);
    let (app_tx, app_rx) = tokio::sync::mpsc::channel(64);
    let (cmd_tx, cmd_rx) = tokio::sync::mpsc::channel(4);
    let (pdu_tx, pdu_rx) = tokio::sync::mpsc::channel(64);
    let s = Session::new(cfg, r, app_tx, cmd_rx, pdu_tx);
    Sess { s, pdu_rx, app_rx, cmd_tx, client, _w: w }
}

fn drain_outs(rx: &mut tokio::sync::mpsc::Receiver<BgpMsg<Bytes>>) -> String {
    let mut v = vec![];
    while let Ok(m) = rx.try_recv() {
        v.push(match m {
            BgpMsg::Open(_) => "O".to_string(),
            BgpMsg::Keepalive(_) => "K".to_string(),
            BgpMsg::Update(_) => "U".to_string(),
            BgpMsg::RouteRefresh(_) => "R".to_string(),
            BgpMsg::Notification(n) => { let r = n.as_ref(); format!("N{}.{}", r[19], r[20]) }
        });
    }
    if v.is_empty() { "-".into() } else { v.join(",") }
}

fn run_hm(env: &mut Env, st: u16, d: bool, kind: &str) -> String {
    let msg = match kind_msg(kind) { Some(m) => m, None => return "unbuildable".into() };
    // the outcome of a panicking future must not poison the runtime: run it under catch_unwind here
    let r = std::panic::catch_unwind(std::panic::AssertUnwindSafe(|| {
        env.rt.block_on(async {
            let mut se = new_session().await;
            se.s.verif_set_state(state_of(st));
            if d { se.s.verif_start_delay_open_timer(); }
            let r = se.s.verif_handle_msg(msg).await;
            let snap = se.s.verif_snapshot();
            format!("{} {} d={} conn={} outs={}", if r.is_ok() { "ok" } else { "err" }, state_no(se.s.state()),
                snap.delay_open_timer_running as u8, snap.has_connection as u8, drain_outs(&mut se.pdu_rx))
        })
    }));
    match r { Ok(s) => s, Err(e) => { dbg_payload(&e); "panic".into() } }
}

fn dbg_payload(e: &Box<dyn std::any::Any + Send>) {
    if std::env::var("RC_DEBUG").is_ok() {
        let m = e.downcast_ref::<&str>().map(|s| s.to_string()).or_else(|| e.downcast_ref::<String>().cloned()).unwrap_or_default();
        eprintln!("panic payload: {}", m);
    }
}

fn run_e2e(env: &mut Env, st: u16, d: bool, stream: &[u8], drop_cmd: bool) -> String {
    let r = std::panic::catch_unwind(std::panic::AssertUnwindSafe(|| {
        env.rt.block_on(async {
            use tokio::io::AsyncWriteExt;
            let mut se = new_session().await;
            if drop_cmd {
                // the application keeps no handle on the command channel
                let (tx, _rx) = tokio::sync::mpsc::channel(1);
                drop(std::mem::replace(&mut se.cmd_tx, tx));
            }
            se.s.verif_set_state(state_of(st));
            if d { se.s.verif_start_delay_open_timer(); }
            se.client.write_all(stream).await.unwrap();
            se.client.shutdown().await.unwrap();
            let mut ticks = vec![];
            for _ in 0..24 {
                match tokio::time::timeout(std::time::Duration::from_secs(3), se.s.tick()).await {
                    Err(_) => { ticks.push("hang".to_string()); break; }
                    Ok(Ok(())) => ticks.push(format!("ok:{}", state_no(se.s.state()))),
                    Ok(Err(_)) => { ticks.push(format!("err:{}", state_no(se.s.state()))); break; }
                }
                if !se.s.verif_snapshot().has_connection { break; }
            }
            let mut reply = format!("{} conn={} outs={}", ticks.join(","), se.s.verif_snapshot().has_connection as u8, drain_outs(&mut se.pdu_rx));
            if drop_cmd && !reply.contains("hang") {
                // the session task goes on calling tick() (Session::process loops until an Err)
                let mut after = vec![];
                for _ in 0..2 {
                    after.push(match tokio::time::timeout(std::time::Duration::from_millis(15), se.s.tick()).await {
                        Err(_) => "pend", Ok(Ok(())) => "ok", Ok(Err(_)) => "err" });
                }
                reply.push_str(&format!(" after={}", after.join(",")));
            }
            reply
        })
    }));
    match r { Ok(s) => s, Err(e) => { dbg_payload(&e); "panic".into() } }
}

/// what reached the application channel, in order
fn drain_app(rx: &mut tokio::sync::mpsc::Receiver<AppMsg>) -> String {
    let mut v = vec![];
    while let Ok(m) = rx.try_recv() {
        v.push(match m {
            AppMsg::UpdateMessage(u) => { let r = u.as_ref(); format!("U:{}:{}", r.len(), hash_bytes(r)) }
            AppMsg::NotificationMessage(n) => { let r = n.as_ref(); format!("N:{}.{}", r[19], r[20]) }
            AppMsg::Attributes(_) => "A".to_string(),
            AppMsg::SessionNegotiated(_) => "S".to_string(),
            AppMsg::ConnectionLost(_) => "L".to_string(),
        });
    }
    if v.is_empty() { "-".into() } else { v.join(",") }
}

/// the peer writes `stream` in the chunks `lens`; between chunks the application sends a command and the
/// session is ticked until nothing more happens (the timeout cancels the pending tick, i.e. read_frame)
async fn e2ec_once(st: u16, d: bool, stream: &[u8], lens: &[usize]) -> String {
    use tokio::io::AsyncWriteExt;
    let mut se = new_session().await;
    se.s.verif_set_state(state_of(st));
    if d { se.s.verif_start_delay_open_timer(); }
    let mut ended: Option<&str> = None;
    let mut off = 0;
    let mut keep = vec![];
    for (i, n) in lens.iter().enumerate() {
        if ended.is_some() || !se.s.verif_snapshot().has_connection { break; }
        se.client.write_all(&stream[off..off + n]).await.unwrap();
        off += n;
        if i + 1 == lens.len() { break; }
        // another select! arm becomes ready while (possibly) a frame is incomplete
        let (tx, rx) = tokio::sync::oneshot::channel();
        let _ = se.cmd_tx.send(Command::GetAttributes { resp: tx }).await;
        keep.push(rx);
        for _ in 0..64 {
            match tokio::time::timeout(std::time::Duration::from_millis(12), se.s.tick()).await {
                Err(_) => break,                       // idle: the pending tick (and its read_frame) is dropped
                Ok(Ok(())) => {}
                Ok(Err(_)) => { ended = Some("err"); break; }
            }
            if !se.s.verif_snapshot().has_connection { break; }
        }
    }
    if ended.is_none() && se.s.verif_snapshot().has_connection {
        // whatever was not written because the session ended early is never written; otherwise close
        if off < stream.len() { let _ = se.client.write_all(&stream[off..]).await; }
        se.client.shutdown().await.unwrap();
        for _ in 0..48 {
            match tokio::time::timeout(std::time::Duration::from_secs(3), se.s.tick()).await {
                Err(_) => { ended = Some("hang"); break; }
                Ok(Ok(())) => {}
                Ok(Err(_)) => { ended = Some("err"); break; }
            }
            if !se.s.verif_snapshot().has_connection { break; }
        }
    }
    let snap = se.s.verif_snapshot();
    format!("app={} end={} st={} conn={} outs={}", drain_app(&mut se.app_rx), ended.unwrap_or("ok"),
        state_no(se.s.state()), snap.has_connection as u8, drain_outs(&mut se.pdu_rx))
}

fn run_e2ec(env: &mut Env, st: u16, d: bool, stream: &[u8], lens: &[usize]) -> String {
    let r = std::panic::catch_unwind(std::panic::AssertUnwindSafe(|| {
        env.rt.block_on(async {
            let chunked = e2ec_once(st, d, stream, lens).await;
            let whole = e2ec_once(st, d, stream, &[stream.len()]).await;
            format!("{} same={}", chunked, (chunked == whole) as u8)
        })
    }));
    match r { Ok(s) => s, Err(e) => { dbg_payload(&e); "panic".into() } }
}

// ---------------------------------------------------------------------------
impl Prop for C09 {
    fn gen(&self, rng: &mut Rng, tier: Tier) -> Vec<String> {
        silence_panics(); // the verdict table probes the real decoders under catch_unwind
        let mut v = Vec::new();
        let scale = if tier == Tier::Thorough { 100 } else { 1 };
        // (1) FSM table: every (state, delay-open timer running, message kind); state 7 = Unimplemented
        for st in 1..=7 { for d in 0..2 { for k in KINDS { v.push(format!("hm {} {} {}", st, d, k)); } } }
        // (2) all 65536 values of the length field, both readers
        for len in 0..65536u32 {
            let mut s = vec![0xffu8; 16];
            s.extend_from_slice(&(len as u16).to_be_bytes());
            s.push(4);
            // complete frame for lengths 19..=24, otherwise a short tail
            let extra = if (19..=24).contains(&len) { len as usize - 19 } else { (len % 3) as usize };
            s.extend(std::iter::repeat(0xaau8).take(extra));
            v.push(format!("feed {} {} {}", hex(&s), s.len(), table_for(&s)));
            v.push(format!("rm {} {}", if len % 5 == 0 { 7 } else { 0 }, hex(&s)));
        }
        // complete frames at the big boundaries
        for len in [4095usize, 4096, 4097, 65535] {
            let mut s = with_header(2, &vec![0u8; len - 19]);
            s.extend(keepalive());
            v.push(format!("feed {} {},{} {}", hex(&s), len / 2, s.len() - len / 2, table_for(&s)));
            v.push(format!("rm 0 {}", hex(&s)));
            v.push(format!("rm 1000 {}", hex(&s)));
        }
        // (3) every composition of short streams
        let ka = keepalive();
        v.push(format!("parts {} {}", hex(&ka), table_for(&ka)));
        let mut bad = ka.clone(); bad[17] = 18;
        v.push(format!("parts {} {}", hex(&bad), table_for(&bad)));
        let mut badm = ka.clone(); badm[3] = 0;
        v.push(format!("parts {} {}", hex(&badm), table_for(&badm)));
        if tier == Tier::Thorough {
            let n = notification(6, 4, &[]);
            v.push(format!("parts {} {}", hex(&n), table_for(&n)));
            let mut s = ka.clone(); s.extend_from_slice(&ka[..3]);
            v.push(format!("parts {} {}", hex(&s), table_for(&s)));
        }
        // (4) sequences of 1..5 messages: every split point, 1-byte reads, random chunkings
        for i in 0..(1000 * scale) {
            let n = 1 + (i % 5);
            let mut s = vec![];
            for _ in 0..n { s.extend(any_msg(rng)); }
            let t = table_for(&s);
            if !decoders_total(&t) { continue; }
            let h = hex(&s);
            v.push(format!("split2 {} {}", h, t));
            v.push(format!("bytewise {} {}", h, t));
            if s.len() <= 64 { v.push(format!("split3 {} {}", h, t)); }
            for _ in 0..2 { v.push(format!("feed {} {} {}", h, lens_str(&random_lens(rng, s.len())), t)); }
            // the same stream, every frame decided by the model's concrete decoders
            v.push(format!("feed {} {} *", h, lens_str(&random_lens(rng, s.len()))));
            if i % 4 == 0 && s.len() <= 200 { v.push(format!("split2 {} *", h)); }
        }
        // (4b) frames near the 4096-byte maximum inside a sequence
        for i in 0..(12 * scale) {
            let n = if i % 3 == 0 { 1018 } else { rng.usize(200, 1018) };   // 19 + 4 + 4n <= 4095
            let mut wd = vec![];
            for _ in 0..n { wd.push(24); wd.extend(rng.bytes(3)); }
            let mut b = (wd.len() as u16).to_be_bytes().to_vec();
            b.extend(wd); b.extend_from_slice(&[0, 0]);
            let mut s = if rng.bool() { keepalive() } else { vec![] };
            s.extend(with_header(2, &b));
            s.extend(any_msg(rng));
            let t = table_for(&s);
            if !decoders_total(&t) { continue; }
            let h = hex(&s);
            if i < 3 * scale { v.push(format!("split2 {} {}", h, t)); }
            v.push(format!("bytewise {} {}", h, t));
            for _ in 0..2 { v.push(format!("feed {} {} {}", h, lens_str(&random_lens(rng, s.len())), t)); }
        }
        // (4c) long streams: hundreds of frames through one Connection (BytesMut growth / advance cycles)
        for i in 0..(2 * scale) {
            let mut s = vec![];
            for _ in 0..(250 + 50 * (i % 3)) { s.extend(match rng.below(3) { 0 => keepalive(), 1 => update_msg(rng), _ => notification(6, 2, &[]) }); }
            if i % 2 == 1 { s.extend(route_refresh()); s.extend(keepalive()); }
            v.push(format!("feed {} {} *", hex(&s), lens_str(&random_lens(rng, s.len()))));
            v.push(format!("feed {} {} *", hex(&s), s.len()));
        }
        // (5) malformed streams and arbitrary bytes
        for i in 0..(1000 * scale) {
            let s = if i % 10 == 0 { let n = rng.usize(0, 80); rng.bytes(n) } else { malformed(rng) };
            let t = table_for(&s);
            let h = hex(&s);
            v.push(format!("feed {} {} *", h, lens_str(&random_lens(rng, s.len()))));
            if !decoders_total(&t) { continue; }
            v.push(format!("split2 {} {}", h, t));
            v.push(format!("bytewise {} {}", h, t));
            v.push(format!("feed {} {} {}", h, lens_str(&random_lens(rng, s.len())), t));
            v.push(format!("rm {} {}", *rng.pick(&[0usize, 1, 5, 4096]), h));
        }
        // (6) blocking reader on well-formed sequences, every reader granularity
        for _ in 0..(300 * scale) {
            let mut s = vec![];
            for _ in 0..rng.usize(1, 5) { s.extend(any_msg(rng)); }
            v.push(format!("rm {} {}", *rng.pick(&[0usize, 1, 2, 17, 18, 19, 100]), hex(&s)));
        }
        // (7) end to end over a loopback socket: Session::tick on what the peer wrote
        for i in 0..(400 * scale) {
            let st = 1 + rng.below(7) as u16;   // 7 = State::Unimplemented
            let d = rng.chance(1, 4) as u8;
            let s = if i % 3 == 2 { malformed(rng) } else {
                let mut s = vec![];
                for _ in 0..rng.usize(1, 4) { s.extend(any_msg(rng)); }
                s
            };
            if i % 2 == 1 { v.push(format!("e2e {} {} {} *", st, d, hex(&s))); continue; }
            let t = table_for(&s);
            if !decoders_total(&t) { continue; }
            v.push(format!("e2e {} {} {} {}", st, d, hex(&s), t));
        }
        // (7a) the same with the command channel closed by the application (Session::process() situation), and tick()
        //      called again after the session has lost its connection: streams that end the session in every way
        //      (message illegal in the state, bad header, plain EOF, accepted OPEN + KEEPALIVE)
        for i in 0..(90 * scale) {
            let st = if i % 2 == 0 { 4 } else { 1 + rng.below(6) as u16 };
            let d = rng.chance(1, 6) as u8;
            let s = match i % 6 {
                0 => keepalive(),
                1 => update_msg(rng),
                2 => vec![],
                3 => malformed(rng),
                _ => { let mut s = vec![]; for _ in 0..rng.usize(1, 3) { s.extend(any_msg(rng)); } s }
            };
            v.push(format!("e2ed {} {} {} *", st, d, hex(&s)));
        }
        // (7b) the same through chunked writes with a command in between (select! fairness / cancellation of read_frame):
        //      at least one split falls inside a frame, after its 18th octet
        for i in 0..(120 * scale) {
            let st = if i % 3 == 0 { 6 } else { 1 + rng.below(6) as u16 };
            let d = rng.chance(1, 6) as u8;
            let mut frames: Vec<Vec<u8>> = vec![];
            if st == 4 && rng.bool() { frames.push(good_open(rng)); }
            for _ in 0..rng.usize(1, 4) { frames.push(if i % 7 == 6 { malformed(rng) } else { any_msg(rng) }); }
            let s: Vec<u8> = frames.concat();
            if s.len() < 20 { continue; }
            // a cut inside frame j, after its 18th octet (if the frame is longer than 19)
            let j = rng.usize(0, frames.len() - 1);
            let o: usize = frames[..j].iter().map(|f| f.len()).sum();
            let l = frames[j].len();
            let mut cuts = vec![if l > 19 { o + rng.usize(18, l - 1) } else { o + l.min(18) }];
            if rng.bool() { cuts.push(rng.usize(1, s.len() - 1)); }
            cuts.retain(|c| *c > 0 && *c < s.len());
            cuts.sort(); cuts.dedup();
            if cuts.is_empty() { continue; }
            let mut lens = vec![]; let mut prev = 0;
            for c in &cuts { lens.push(c - prev); prev = *c; }
            lens.push(s.len() - prev);
            v.push(format!("e2ec {} {} {} {} *", st, d, hex(&s), lens_str(&lens)));
        }
        // (8) single frames of all five types, valid and malformed, under varying session configurations:
        //     the model decides the verdict (and the values read off an OPEN) from the bytes alone
        gen_dec(rng, scale, &mut v);
        v
    }

    fn exec(&self, line: &str) -> String {
        let w: Vec<&str> = line.split(' ').collect();
        let get = |s: &str| unhex(s);
        match w.as_slice() {
            ["dec", c, a, h] => {
                let Some(cfg) = crate::props::c02::parse_cfg(c) else { return "bad-op".into() };
                if a.is_empty() || a.len() > 10 || !a.bytes().all(|b| b.is_ascii_digit()) { return "bad-op".into(); }
                let Ok(asn) = a.parse::<u64>() else { return "bad-op".into() };
                if asn > u32::MAX as u64 { return "bad-op".into(); }
                let Some(f) = get(h) else { return "bad-op".into() };
                run_dec(&crate::props::c02::make_cfg(&cfg), asn as u32, &f)
            }
            ["feed", s, lens, t] => {
                let (Some(s), true) = (get(s), true) else { return "bad-op".into() };
                let Some(lens) = parse_lens(lens, s.len()) else { return "bad-op".into() };
                if parse_table(t, s.len()).is_none() { return "bad-op".into(); }
                with_env(|e| show_run(&run_chunks(e, &s, &lens)))
            }
            ["bytewise", s, t] => {
                let Some(s) = get(s) else { return "bad-op".into() };
                if parse_table(t, s.len()).is_none() { return "bad-op".into(); }
                with_env(|e| show_run(&run_chunks(e, &s, &vec![1; s.len()])))
            }
            [op @ ("split2" | "split3" | "parts"), s, t] => {
                let Some(s) = get(s) else { return "bad-op".into() };
                if parse_table(t, s.len()).is_none() { return "bad-op".into(); }
                let n = s.len();
                if *op == "parts" && n > 22 { return "bad-op".into(); }
                with_env(|e| match *op {
                    "split2" => multi(e, &s, &mut |f| { for k in 1..n { f(&[k, n - k]); } }),
                    "split3" => multi(e, &s, &mut |f| { for a in 1..n { for b in a + 1..n { f(&[a, b - a, n - b]); } } }),
                    _ => multi(e, &s, &mut |f| compositions(n, f)),
                })
            }
            ["rm", k, s] => {
                let Some(s) = get(s) else { return "bad-op".into() };
                let Ok(k) = k.parse::<usize>() else { return "bad-op".into() };
                if k > 100_000 { return "bad-op".into(); }
                run_rm(k, &s)
            }
            ["hm", st, d, kind] => {
                let (Ok(st), Ok(d)) = (st.parse::<u16>(), d.parse::<u8>()) else { return "bad-op".into() };
                if !(1..=7).contains(&st) || d > 1 || !KINDS.contains(kind) { return "bad-op".into(); }
                with_env(|e| run_hm(e, st, d == 1, kind))
            }
            ["e2ec", st, d, s, lens, t] => {
                let (Ok(st), Ok(d)) = (st.parse::<u16>(), d.parse::<u8>()) else { return "bad-op".into() };
                let Some(s) = get(s) else { return "bad-op".into() };
                let Some(lens) = parse_lens(lens, s.len()) else { return "bad-op".into() };
                if !(1..=7).contains(&st) || d > 1 || lens.is_empty() || parse_table(t, s.len()).is_none() { return "bad-op".into(); }
                with_env(|e| run_e2ec(e, st, d == 1, &s, &lens))
            }
            ["e2e", st, d, s, t] => {
                let (Ok(st), Ok(d)) = (st.parse::<u16>(), d.parse::<u8>()) else { return "bad-op".into() };
                let Some(s) = get(s) else { return "bad-op".into() };
                if !(1..=7).contains(&st) || d > 1 || parse_table(t, s.len()).is_none() { return "bad-op".into(); }
                with_env(|e| run_e2e(e, st, d == 1, &s, false))
            }
            ["e2ed", st, d, s, t] => {
                let (Ok(st), Ok(d)) = (st.parse::<u16>(), d.parse::<u8>()) else { return "bad-op".into() };
                let Some(s) = get(s) else { return "bad-op".into() };
                if !(1..=7).contains(&st) || d > 1 || parse_table(t, s.len()).is_none() { return "bad-op".into(); }
                with_env(|e| run_e2e(e, st, d == 1, &s, true))
            }
            _ => "bad-op".into(),
        }
    }

    /// the property itself on the implementation's reply
    fn oracle(&self, line: &str, reply: &str) -> Result<(), String> {
        if reply == "bad-op" { return Ok(()); }
        if reply == "panic" || reply.contains("panic") { return Err("the peer's bytes panic the implementation".into()); }
        let w: Vec<&str> = line.split(' ').collect();
        let r: Vec<&str> = reply.split(' ').collect();
        match w.as_slice() {
            ["dec", _, a, h] => {
                let f = unhex(h).ok_or("hex")?;
                if let Some(want) = dec_reference(&f) {
                    if reply != want { return Err(format!("RFC 4271 section 4: this frame must decode to `{}`, the implementation says `{}`", want, trunc80(reply))); }
                }
                // ROUTE-REFRESH: refused or recognised, but only a well-formed one may be recognised
                if reply == "r" && !is_wellformed_rr(&f) { return Err("a frame that is not a well-formed ROUTE-REFRESH was decoded as one".into()); }
                if is_wellformed_rr(&f) && reply != "r" && reply != "err" { return Err(format!("a ROUTE-REFRESH decoded as `{}`", trunc80(reply))); }
                // an OPEN is classified by the AS it announces
                if let Some(x) = r.get(1).and_then(|x| x.strip_prefix("asn=")) {
                    let same = x == *a;
                    if (r[0] == "B") == same { return Err(format!("OPEN from AS {} with AS {} admissible classified `{}`", x, a, r[0])); }
                }
                Ok(())
            }
            ["feed", s, ..] | ["bytewise", s, ..] | ["split2", s, ..] | ["split3", s, ..] | ["parts", s, ..] => {
                let s = unhex(s).ok_or("hex")?;
                if r.len() < 2 { return Err("short reply".into()); }
                judge_run(&s, r[0], r[1])?;
                if matches!(w[0], "split2" | "split3" | "parts") {
                    let n = r.iter().find_map(|x| x.strip_prefix("n=")).unwrap_or("?");
                    let same = r.iter().find_map(|x| x.strip_prefix("same=")).unwrap_or("!");
                    if n != same { return Err(format!("result depends on the chunking: {}", r.last().unwrap())); }
                }
                Ok(())
            }
            ["rm", _, s] => {
                let s = unhex(s).ok_or("hex")?;
                // the blocking reader on a stream of complete frames returns exactly those frames
                let mut o = 0; let mut exp = vec![]; let mut clean = true;
                while o < s.len() && exp.len() < 8 {
                    if s.len() - o < 18 { exp.push("none|err".to_string()); clean = false; break; }   // EOF inside a header: no frame
                    let len = u16::from_be_bytes([s[o + 16], s[o + 17]]) as usize;
                    if len < 19 || len > 4096 { exp.push("err".into()); clean = false; break; }
                    if s.len() - o < len { clean = false; break; }
                    exp.push(show_slice(&s[o..o + len]));
                    o += len;
                }
                if clean && exp.len() < 8 { exp.push("none".into()); }
                for (i, e) in exp.iter().enumerate() {
                    match r.get(i) { Some(x) if x == e || (e == "none|err" && (*x == "none" || *x == "err")) => {}, other => return Err(format!("read #{}: expected {}, got {:?}", i, trunc80(e), other)) }
                }
                Ok(())
            }
            ["hm", ..] => Ok(()),
            ["e2ec", _, _, s, ..] => {
                if reply.contains("hang") { return Err("session task hangs on the peer's bytes".into()); }
                if !reply.ends_with(" same=1") {
                    return Err("what the session does with the stream depends on how the peer's writes were split and on a command arriving in between".into());
                }
                // what reached the application are messages that are on the wire, in wire order
                let s = unhex(s).ok_or("hex")?;
                let fr = reference(&s);
                let want: Vec<String> = fr.iter().filter_map(|f| match f[18] {
                    2 => Some(format!("U:{}:{}", f.len(), hash_bytes(f))),
                    3 => Some(format!("N:{}.{}", f[19], f[20])),
                    _ => None }).collect();
                let app = r.iter().find_map(|x| x.strip_prefix("app=")).unwrap_or("-");
                let mut it = want.iter();
                for a in app.split(',').filter(|a| a.starts_with("U:") || a.starts_with("N:")) {
                    if !it.any(|w| w == a) { return Err(format!("the application received `{}`, which is not the next such message on the wire", trunc80(a))); }
                }
                Ok(())
            }
            ["e2e", st, d, s, ..] => {
                if reply.contains("hang") { return Err("session task hangs on the peer's bytes".into()); }
                let s = unhex(s).ok_or("hex")?;
                judge_e2e_rr(st, d, &s, reply)
            }
            ["e2ed", ..] => { if reply.contains("hang") { Err("session task hangs on the peer's bytes".into()) } else { Ok(()) } }
            _ => Ok(()),
        }
    }

    fn nontrivial(&self, line: &str, reply: &str) -> bool {
        if reply == "bad-op" { return false; }
        let op = line.split(' ').next().unwrap_or("");
        match op {
            "hm" | "e2e" | "e2ec" | "e2ed" => true,
            "dec" => reply != "err" || line.split(' ').nth(3).map(|h| h.len() >= 38 && h.starts_with("ffffffffffffffffffffffffffffffff")).unwrap_or(false),
            "rm" => reply.starts_with("some") || reply.starts_with("err"),
            _ => !reply.starts_with("- rest:"),
        }
    }

    fn class(&self, line: &str, reply: &str) -> String {
        let op = line.split(' ').next().unwrap_or("");
        let r: Vec<&str> = reply.split(' ').collect();
        match op {
            "dec" => {
                let ty = line.split(' ').nth(3).and_then(|h| h.get(36..38)).unwrap_or("--");
                format!("dec:type{}-{}", if matches!(ty, "01" | "02" | "03" | "04" | "05") { ty } else { "xx" }, r[0])
            }
            "e2ec" => format!("e2ec:{}-app-{}", r.get(1).and_then(|x| x.strip_prefix("end=")).unwrap_or("?"),
                if r.first().map(|x| *x == "app=-").unwrap_or(true) { "nothing" } else { "messages" }),
            "hm" => format!("hm:{}", r[0]),
            "e2e" | "e2ed" => format!("{}:{}", op, if reply.contains("err:") { "ends-in-error" } else if reply == "panic" { "panic" } else { "eof" }),
            "rm" => format!("rm:{}", if reply == "panic" { "panic".into() } else { format!("{}reads-{}", r.len().min(9), r.last().unwrap().split(':').next().unwrap()) }),
            _ => {
                if r.len() < 2 { return format!("{}:{}", op, reply); }
                let nf = if r[0] == "-" { 0 } else { r[0].split(',').count() };
                format!("{}:{}frames-{}", op, nf, r[1].split(':').next().unwrap())
            }
        }
    }
}

fn trunc80(s: &str) -> String { if s.len() <= 80 { s.into() } else { format!("{}...", &s[..80]) } }
