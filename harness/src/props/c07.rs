//! C07: re-encoding a received UPDATE preserves its attributes and NLRI.
//!
//! Request lines
//!   `re <attrs>`                  attribute section (hex) of an UPDATE without NLRI; the PDU around
//!                                 it is built here (marker, length, type 2, no withdrawn routes)
//!   `re2 <attrs>` / `re2w <attrs>` the same in a two-octet session (`SessionConfig::legacy()`); `re2w` =
//!                                 the section holds an attribute whose encoding depends on the AS number
//!                                 width (an AS_PATH that is well formed two octets wide and has an AS
//!                                 number, or a six-octet AGGREGATOR), `re2` = it holds none; a line with
//!                                 the wrong one of the two is `bad-op`
//!   `nl <fam> <wd> <ann> <attrs>` an UPDATE carrying the NLRI octets `wd` / `ann` of one family
//!                                 (c4 = conventional sections; v4u v4m v4mpls v4vpn v4rt v4fs v6u v6m
//!                                 v6mpls v6vpn v6fs vpls evpn = MP attributes, next hop octets 0x01;
//!                                 suffix `a` = the session has ADD-PATH (rx + tx) for the family, the
//!                                 NLRI carry path ids and the builder is of the ADD-PATH NLRI type)
//!                                 plus the attributes `attrs` (no 14 / 15)
//! Replies
//!   re: `rej` | `ok D<hex>#<n> M<hex>#<n> B<pdu hex>`: the section re-encoded by
//!       D  every `path_attributes()` item -> `to_owned()` -> `PathAttribute::compose`, n = sum of
//!          `compose_len()`
//!       M  `PaMap::from_update_pdu` -> every attribute composed in map order, n = `bytes_len()`
//!       B  `UpdateBuilder::from_update_message` -> `into_message`: the whole PDU
//!       (`Derr` / `Merr` / `Berr` when the route returns an error)
//!   `nl2 <fam> <wd> <ann> <attrs>` the same in a two-octet session (`SessionConfig::legacy()`); `attrs` hold no
//!                                 attribute whose encoding depends on the AS number width (else `bad-op`)
//!   `nlx <fam> <wd> <attrs> <ann>` the three sections of an UPDATE as given - `attrs` may hold MP attributes of any
//!                                 family - re-added by a builder of the NLRI type `fam` (not c4) in a four-octet
//!                                 session (+ ADD-PATH for `fam`a): placement of the NLRI in mixed UPDATEs
//!   `nlt <fam> <wd> <ann> <attrs>` as `nl`, the message re-added TWICE by one builder (the second round extends the
//!                                 MP builders the first one created)
//!   (nl / nl2 / nlx / nlt: the source UPDATE may have up to 65535 octets - `from_octets` has no 4096-octet rule)
//!   nl: `rej` | `err` | `ok w=<hex> a=<hex> o=<hex> r=<hex> u=<hex> d=<len>.<fnv32>.<sum32>`: the PDU built by
//!       `from_update_message` + `add_announcements_from_pdu` + `add_withdrawals_from_pdu` + `into_message`, cut into
//!       the NLRI octets of its MP_UNREACH_NLRI / MP_REACH_NLRI, its other attributes, what `finish` wrote in front of
//!       the NLRI of MP_REACH_NLRI (`r=`: header, AFI/SAFI, next hop, reserved) / MP_UNREACH_NLRI (`u=`), and a digest
//!       of the whole PDU.  `err` = `into_message` refused (PduTooLarge: known finding K16 when the re-framed PDU
//!       really exceeds 4096 octets - the oracle computes that size itself).
//!
//! The oracle re-decodes every output with the walker below (RFC 4271 4.3 framing, written
//! here, sharing nothing with routecore) and compares codes, flags and values with what the
//! property prescribes for the attributes of the request.
use crate::common::*;
use bytes::Bytes;
use routecore::bgp::message::update_builder::UpdateBuilder;
use routecore::bgp::message::{SessionConfig, UpdateMessage};
use crate::props::c05::{self, ref_enc, ref_wf, Shape, Val};
use routecore::bgp::nlri::afisafi::*;
use routecore::bgp::path_attributes::PaMap;

pub struct C07;

const MAX_PDU: usize = 4096;
const TYPED: [u8; 20] = [1, 2, 3, 4, 5, 6, 7, 8, 9, 10, 16, 17, 18, 20, 21, 25, 32, 35, 128, 255];
const UNKNOWN: [u8; 14] = [0, 11, 12, 13, 19, 22, 23, 24, 26, 40, 99, 127, 200, 254];

fn strict_unhex(s: &str) -> Option<Vec<u8>> {
    if s == "-" { return Some(vec![]); }
    if s.is_empty() || !s.bytes().all(|c| c.is_ascii_digit() || (b'a'..=b'f').contains(&c)) { return None; }
    unhex(s)
}

fn mk_pdu(wd: &[u8], attrs: &[u8], nlri: &[u8]) -> Vec<u8> {
    let len = 19 + 2 + wd.len() + 2 + attrs.len() + nlri.len();
    let mut p = vec![0xffu8; 16];
    p.extend((len as u16).to_be_bytes());
    p.push(2);
    p.extend((wd.len() as u16).to_be_bytes());
    p.extend_from_slice(wd);
    p.extend((attrs.len() as u16).to_be_bytes());
    p.extend_from_slice(attrs);
    p.extend_from_slice(nlri);
    p
}

fn mp_attr(code: u8, v: &[u8]) -> Vec<u8> {
    let mut o = Vec::new();
    if v.len() > 255 { o.push(0x90); o.push(code); o.extend((v.len() as u16).to_be_bytes()); }
    else { o.push(0x80); o.push(code); o.push(v.len() as u8); }
    o.extend_from_slice(v);
    o
}

#[derive(Clone, Copy, PartialEq, Debug)]
enum Base { V4u, V4m, V4mpls, V4vpn, V4rt, V4fs, V6u, V6m, V6mpls, V6vpn, V6fs, Vpls, Evpn }
use Base::*;

/// `conv`: IPv4 unicast in the conventional sections; `ap`: ADD-PATH session for the family
#[derive(Clone, Copy, PartialEq, Debug)]
struct Fam { b: Base, ap: bool, conv: bool }

/// (token, family, (afi, safi), octets of the family's default next hop, c05 variant name)
const BASES: [(&str, Base, (u16, u8), usize, &str); 13] = [
    ("v4u", V4u, (1, 1), 4, "Ipv4Unicast"), ("v4m", V4m, (1, 2), 4, "Ipv4Multicast"), ("v4mpls", V4mpls, (1, 4), 4, "Ipv4MplsUnicast"),
    ("v4vpn", V4vpn, (1, 128), 12, "Ipv4MplsVpnUnicast"), ("v4rt", V4rt, (1, 132), 4, "Ipv4RouteTarget"), ("v4fs", V4fs, (1, 133), 0, "Ipv4FlowSpec"),
    ("v6u", V6u, (2, 1), 16, "Ipv6Unicast"), ("v6m", V6m, (2, 2), 16, "Ipv6Multicast"), ("v6mpls", V6mpls, (2, 4), 16, "Ipv6MplsUnicast"),
    ("v6vpn", V6vpn, (2, 128), 24, "Ipv6MplsVpnUnicast"), ("v6fs", V6fs, (2, 133), 0, "Ipv6FlowSpec"),
    ("vpls", Vpls, (25, 65), 4, "L2VpnVpls"), ("evpn", Evpn, (25, 70), 4, "L2VpnEvpn")];

fn fam_of(s: &str) -> Option<Fam> {
    if s == "c4" { return Some(Fam { b: V4u, ap: false, conv: true }); }
    if s == "c4a" { return Some(Fam { b: V4u, ap: true, conv: true }); }
    if let Some(x) = BASES.iter().find(|x| x.0 == s) { return Some(Fam { b: x.1, ap: false, conv: false }); }
    let t = s.strip_suffix('a')?;
    BASES.iter().find(|x| x.0 == t).map(|x| Fam { b: x.1, ap: true, conv: false })
}
fn base_row(b: Base) -> &'static (&'static str, Base, (u16, u8), usize, &'static str) { BASES.iter().find(|x| x.1 == b).unwrap() }
fn fam_name(f: Fam) -> String {
    let n = if f.conv { "c4" } else { base_row(f.b).0 };
    if f.ap { format!("{}a", n) } else { n.to_string() }
}
/// (afi, safi, length of the family's default next hop)
fn fam_info(f: Fam) -> (u16, u8, usize) { let r = base_row(f.b); (r.2 .0, r.2 .1, r.3) }
/// the c05 description of the NLRI type (shape, address length, path id)
fn fam_var(f: Fam) -> &'static c05::Var {
    let n = base_row(f.b).4;
    c05::variant(&if f.ap { format!("{}Addpath", n) } else { n.to_string() }).unwrap()
}

/// the attribute section and the PDU of an `nl` request
fn nl_pdu(f: Fam, wd: &[u8], ann: &[u8], attrs: &[u8]) -> Vec<u8> {
    if f.conv { return mk_pdu(wd, attrs, ann); }
    let (afi, safi, nh) = fam_info(f);
    let mut sec = Vec::new();
    if !ann.is_empty() {
        let mut v = Vec::new();
        v.extend(afi.to_be_bytes()); v.push(safi); v.push(nh as u8); v.extend(std::iter::repeat(1u8).take(nh)); v.push(0);
        v.extend_from_slice(ann);
        sec.extend(mp_attr(14, &v));
    }
    if !wd.is_empty() {
        let mut v = Vec::new();
        v.extend(afi.to_be_bytes()); v.push(safi);
        v.extend_from_slice(wd);
        sec.extend(mp_attr(15, &v));
    }
    sec.extend_from_slice(attrs);
    mk_pdu(&[], &sec, &[])
}

// ---------------------------------------------------------------------------
// independent reference: TLV walker, flag table, length rules, AS path hops, NLRI items
// ---------------------------------------------------------------------------

type Tlv = (u8, u8, Vec<u8>);

/// RFC 4271 4.3: flags, type, one- or two-octet length by the Extended Length bit, value.
/// `None` when the octets are not exactly a sequence of complete attributes.
fn walk(sec: &[u8]) -> Option<Vec<Tlv>> {
    let mut out = Vec::new();
    let mut i = 0;
    while i < sec.len() {
        if i + 3 > sec.len() { return None; }
        let fl = sec[i];
        let code = sec[i + 1];
        let (len, h) = if fl & 0x10 != 0 {
            if i + 4 > sec.len() { return None; }
            (u16::from_be_bytes([sec[i + 2], sec[i + 3]]) as usize, 4)
        } else { (sec[i + 2] as usize, 3) };
        if i + h + len > sec.len() { return None; }
        out.push((fl, code, sec[i + h..i + h + len].to_vec()));
        i += h + len;
    }
    Some(out)
}

/// the walk routecore's bad-op rule uses: stop at the first framing error
fn has_mp(sec: &[u8]) -> bool {
    let mut i = 0;
    while i + 3 <= sec.len() {
        let fl = sec[i];
        let code = sec[i + 1];
        let (len, h) = if fl & 0x10 != 0 {
            if i + 4 > sec.len() { return false; }
            (u16::from_be_bytes([sec[i + 2], sec[i + 3]]) as usize, 4)
        } else { (sec[i + 2] as usize, 3) };
        if i + h + len > sec.len() { return false; }
        if code == 14 || code == 15 { return true; }
        i += h + len;
    }
    false
}

/// attribute flags per RFC 4271 5, 4456, 1997, 4360, 6793, 5701, 8092, 9234, 6368
fn ref_flags(code: u8) -> Option<u8> {
    match code {
        1 | 2 | 3 | 5 | 6 => Some(0x40),
        4 | 9 | 10 => Some(0x80),
        7 | 8 | 16 | 17 | 18 | 20 | 21 | 25 | 32 | 35 | 128 | 255 => Some(0xC0),
        _ => None,
    }
}

#[derive(PartialEq, Debug, Clone)]
enum RHop { Asn([u8; 4]), Seg(u8, Vec<u8>) }

/// AS path value (`w` octets per AS number) as hops: the ASNs of a non-empty AS_SEQUENCE (as
/// four-octet numbers), any other segment whole (its AS numbers widened to four octets)
fn ref_hops_w(v: &[u8], w: usize) -> Option<Vec<RHop>> {
    let mut i = 0;
    let mut out = Vec::new();
    while i < v.len() {
        if i + 2 > v.len() { return None; }
        let t = v[i];
        let n = v[i + 1] as usize;
        if !(1..=4).contains(&t) { return None; }
        if i + 2 + w * n > v.len() { return None; }
        let body = &v[i + 2..i + 2 + w * n];
        let wide: Vec<[u8; 4]> = body.chunks(w).map(|c| if w == 4 { [c[0], c[1], c[2], c[3]] } else { [0, 0, c[0], c[1]] }).collect();
        if t == 2 && n > 0 {
            for c in wide { out.push(RHop::Asn(c)); }
        } else {
            out.push(RHop::Seg(t, wide.concat()));
        }
        i += 2 + w * n;
    }
    Some(out)
}
fn ref_hops(v: &[u8]) -> Option<Vec<RHop>> { ref_hops_w(v, 4) }

/// the per-type length rules; `four` = the session carries four-octet AS numbers (RFC 6793:
/// AS_PATH and AGGREGATOR change width, AS4_PATH and AS4_AGGREGATOR never do)
fn ref_valid_w(code: u8, v: &[u8], four: bool) -> bool {
    let n = v.len();
    match code {
        1 => n == 1,
        2 => ref_hops_w(v, if four { 4 } else { 2 }).is_some(),
        17 => ref_hops(v).is_some(),
        3 | 4 | 5 | 9 | 20 | 35 => n == 4,
        6 => n == 0,
        7 => n == if four { 8 } else { 6 },
        18 => n == 8,
        8 | 10 => n % 4 == 0,
        16 => n % 8 == 0,
        21 => n == 5,
        25 => n % 20 == 0,
        32 => n % 12 == 0,
        128 => n >= 4,
        255 => true,
        _ => false,
    }
}
fn ref_valid(code: u8, v: &[u8]) -> bool { ref_valid_w(code, v, true) }

/// does the encoding of this attribute depend on the AS number width of the session?
fn width_dependent(t: &Tlv) -> bool {
    (t.1 == 2 && ref_hops_w(&t.2, 2).map_or(false, |h| h.iter().any(|x| match x { RHop::Asn(_) => true, RHop::Seg(_, b) => !b.is_empty() })))
        || (t.1 == 7 && t.2.len() == 6)
}
/// the bad-op rule of `re2` / `re2w`: over the walk that stops at the first framing error
fn has_width_dependent(sec: &[u8]) -> bool {
    let mut i = 0;
    while i + 3 <= sec.len() {
        let fl = sec[i];
        let (len, h) = if fl & 0x10 != 0 {
            if i + 4 > sec.len() { return false; }
            (u16::from_be_bytes([sec[i + 2], sec[i + 3]]) as usize, 4)
        } else { (sec[i + 2] as usize, 3) };
        if i + h + len > sec.len() { return false; }
        if width_dependent(&(fl, sec[i + 1], sec[i + h..i + h + len].to_vec())) { return true; }
        i += h + len;
    }
    false
}

#[derive(Clone, Copy, PartialEq, Debug)]
enum Class { Typed, Invalid, Unknown }

fn classify_w(t: &Tlv, four: bool) -> Class {
    match ref_flags(t.1) {
        Some(_) => if ref_valid_w(t.1, &t.2, four) { Class::Typed } else { Class::Invalid },
        None => Class::Unknown,
    }
}

/// how the output is read back
#[derive(Clone, Copy, PartialEq)]
enum Read {
    /// under the session the UPDATE was received in: what the property asks
    Same,
    /// in a two-octet session, the width-dependent attributes read four octets wide (every other
    /// clause as under `Same`): what remains to be checked next to known finding K9
    Widened,
}

/// what the property prescribes for the re-encoding of one received attribute (`four`: the session)
fn judge_attr(src: &Tlv, got: &Tlv, four: bool, read: Read) -> Result<(), String> {
    let (sfl, code, sval) = src;
    let (gfl, gcode, gval) = got;
    if gcode != code { return Err(format!("type code {} became {}", code, gcode)); }
    let ext = if gval.len() > 255 { 0x10u8 } else { 0 };
    match classify_w(src, four) {
        Class::Typed => {
            let want = ref_flags(*code).unwrap() | ext;
            if *gfl != want { return Err(format!("attribute {}: flags {:02x}, canonical {:02x}", code, gfl, want)); }
            let sw = if four || *code == 17 { 4 } else { 2 };
            if *code == 2 || *code == 17 {
                let gw = if read == Read::Widened { 4 } else { sw };
                if ref_hops_w(gval, gw) != ref_hops_w(sval, sw) {
                    return Err(if gw == sw { format!("attribute {}: AS path hops differ", code) }
                        else { format!("attribute {}: AS path hops differ also when read four octets wide", code) });
                }
            } else if *code == 7 && !four && read == Read::Widened {
                let mut w = vec![0u8, 0];
                w.extend_from_slice(sval);
                if *gval != w { return Err(format!("attribute 7: {} is not {} with a four-octet AS number", hex(gval), hex(sval))); }
            } else if gval != sval {
                return Err(format!("attribute {}: value {} became {}", code, hex(sval), hex(gval)));
            }
        }
        Class::Invalid => {
            // recognised type, malformed value: the type's optional/transitive bits, marked partial
            // (the library could not interpret it), value octets untouched
            // (the property says "the canonical flags for recognised types"; the code also sets PARTIAL on a malformed one:
            // with or without that bit the clause holds, so the bit is not demanded - the model agreement still pins it)
            let want = ref_flags(*code).unwrap() | ext;
            if *gfl & !0x20 != want { return Err(format!("malformed attribute {}: flags {:02x}, expected {:02x} (with or without the partial bit)", code, gfl, want)); }
            if gval != sval { return Err(format!("malformed attribute {}: value of {} octets changed", code, sval.len())); }
        }
        Class::Unknown => {
            if gfl & 0xC0 != sfl & 0xC0 {
                return Err(format!("unrecognised attribute {}: optional/transitive {:02x} became {:02x}", code, sfl & 0xC0, gfl & 0xC0));
            }
            if gfl & 0x20 == 0 { return Err(format!("unrecognised attribute {}: partial bit not set", code)); }
            if gfl & 0x10 != ext { return Err(format!("unrecognised attribute {}: extended length {:02x} on {} octets", code, gfl & 0x10, gval.len())); }
            if gval != sval { return Err(format!("unrecognised attribute {}: value of {} octets changed", code, sval.len())); }
        }
    }
    Ok(())
}

fn judge_list_w(what: &str, want: &[Tlv], out: &[u8], four: bool, read: Read) -> Result<(), String> {
    let got = walk(out).ok_or(format!("{}: output is not a sequence of complete attributes", what))?;
    if got.len() != want.len() {
        return Err(format!("{}: {} attributes written, {} expected ({:?} vs {:?})", what, got.len(), want.len(),
            got.iter().map(|t| t.1).collect::<Vec<_>>(), want.iter().map(|t| t.1).collect::<Vec<_>>()));
    }
    for (s, g) in want.iter().zip(got.iter()) { judge_attr(s, g, four, read).map_err(|e| format!("{}: {}", what, e))?; }
    Ok(())
}
fn judge_list(what: &str, want: &[Tlv], out: &[u8]) -> Result<(), String> { judge_list_w(what, want, out, true, Read::Same) }

/// what the attribute map keeps of a section: no MP_REACH / MP_UNREACH, the first of repeated
/// attributes (RFC 7606 3.g), ascending type code
fn map_view(src: &[Tlv]) -> Vec<Tlv> {
    let mut m: Vec<Tlv> = Vec::new();
    for t in src {
        if t.1 == 14 || t.1 == 15 { continue; }
        if m.iter().all(|x| x.1 != t.1) { m.push(t.clone()); }
    }
    m.sort_by_key(|t| t.1);
    m
}

/// One NLRI of the type `var` read off the head of `b` (RFC 4271 4.3 prefixes, 8277 labels, 4364
/// route distinguisher, 4684, 8955 4 length rule, 4761 3.2.2, 7432 7, 7911 path id): the value and
/// the octets consumed. The VPLS length field is not interpreted (routecore does not either).
fn ref_read(var: &c05::Var, b: &[u8]) -> Option<(Val, usize)> {
    let mut v = Val::default();
    let mut i = 0usize;
    if var.ap {
        if b.len() < 4 { return None; }
        v.pid = Some(u32::from_be_bytes([b[0], b[1], b[2], b[3]]) as u64);
        i = 4;
    }
    let alen = if var.v6 { 16 } else { 4 };
    // a prefix of `bits` bits at offset i
    let pfx = |v: &mut Val, i: &mut usize, bits: usize| -> Option<()> {
        if bits > 8 * alen { return None; }
        let nb = (bits + 7) / 8;
        if b.len() < *i + nb { return None; }
        let mut a = vec![0u8; alen];
        a[..nb].copy_from_slice(&b[*i..*i + nb]);
        v.plen = bits as u64;
        v.addr = a;
        *i += nb;
        Some(())
    };
    match var.shape {
        Shape::Pfx => {
            if b.len() < i + 1 { return None; }
            let bits = b[i] as usize; i += 1;
            pfx(&mut v, &mut i, bits)?;
        }
        Shape::Mpls | Shape::Vpn => {
            if b.len() < i + 1 { return None; }
            let bits = b[i] as usize; i += 1;
            loop {
                if b.len() < i + 3 { return None; }
                let g = [b[i], b[i + 1], b[i + 2]];
                v.labels.extend_from_slice(&g);
                i += 3;
                if g[2] & 1 == 1 || g == [0x80, 0, 0] || g == [0, 0, 0] { break; }
            }
            let mut used = 8 * v.labels.len();
            if var.shape == Shape::Vpn { used += 64; }
            if used > bits { return None; }
            if var.shape == Shape::Vpn {
                if b.len() < i + 8 { return None; }
                v.rd = b[i..i + 8].to_vec();
                i += 8;
            }
            pfx(&mut v, &mut i, bits - used)?;
        }
        Shape::Rt => {
            if b.len() < i + 1 { return None; }
            let nb = (b[i] as usize + 7) / 8; i += 1;
            if b.len() < i + nb { return None; }
            v.raw = b[i..i + nb].to_vec();
            i += nb;
        }
        Shape::Fs => {
            if b.len() < i + 1 { return None; }
            let l1 = b[i] as usize; i += 1;
            let n = if l1 >= 0xf0 {
                if b.len() < i + 1 { return None; }
                let n = ((l1 << 8) | b[i] as usize) & 0x0fff; i += 1; n
            } else { l1 };
            if b.len() < i + n { return None; }
            v.afi = if var.v6 { 2 } else { 1 };
            v.raw = b[i..i + n].to_vec();
            i += n;
        }
        Shape::Vpls => {
            if b.len() < i + 19 { return None; }
            let x = &b[i + 2..i + 19];
            v.rd = x[..8].to_vec();
            v.ve = [u16::from_be_bytes([x[8], x[9]]) as u64, u16::from_be_bytes([x[10], x[11]]) as u64, u16::from_be_bytes([x[12], x[13]]) as u64];
            v.lb = ((x[14] as u64) << 16) | ((x[15] as u64) << 8) | x[16] as u64;
            i += 19;
        }
        Shape::Evpn => {
            if b.len() < i + 2 { return None; }
            v.t = b[i] as u64;
            let n = b[i + 1] as usize; i += 2;
            if b.len() < i + n { return None; }
            v.raw = b[i..i + n].to_vec();
            i += n;
        }
    }
    Some((v, i))
}

/// NLRI items of one family up to the first that is not well formed, each as the canonical
/// reference encoding of its value (c05 `ref_enc`): two encodings of one NLRI (FlowSpec length in
/// one or two octets, a route target length that is not a multiple of 8, any VPLS length field)
/// compare equal; `true` = the octets end with the last item

/// `ref_items`, and whether the list stopped at an item that is outside what the RFCs define although
/// the unchanged parser reads it (c05 `wire_tolerated` / `ref_tolerated`: a route-target length other
/// than 0 / 32..=96 bits, a VPLS length field other than 17): an implementation may accept or reject
/// such an item, so from that item on nothing is demanded.
fn ref_items_tol(f: Fam, mut b: &[u8]) -> (Vec<Vec<u8>>, bool, bool) {
    let var = fam_var(f);
    let mut out = Vec::new();
    while !b.is_empty() {
        if c05::wire_tolerated(var.shape, var.ap, b) { return (out, false, true); }
        match ref_read(var, b) {
            Some((v, n)) if ref_wf(var.shape, var.v6, &v) => { out.push(ref_enc(var.shape, &v)); b = &b[n..]; }
            Some((v, _)) if c05::ref_tolerated(var.shape, var.v6, &v) => return (out, false, true),
            _ => return (out, false, false),
        }
    }
    (out, true, false)
}

// ---------------------------------------------------------------------------
// the real code
// ---------------------------------------------------------------------------

/// `two`: None = four-octet session; Some(w) = two-octet session, `w` = the line claims a
/// width-dependent attribute
fn exec_re(attrs: &[u8], two: Option<bool>) -> String {
    let raw = mk_pdu(&[], attrs, &[]);
    // UpdateMessage::from_octets has no 4096-octet rule (that is the framing layer's, C09): an
    // UPDATE is accepted up to what the length field can say
    if raw.len() > 65535 { return "bad-op".into(); }
    if let Some(w) = two { if has_width_dependent(attrs) != w { return "bad-op".into(); } }
    let sc = if two.is_some() { SessionConfig::legacy() } else { SessionConfig::modern() };
    let pdu = match UpdateMessage::from_octets(raw, &sc) { Ok(p) => p, Err(_) => return "rej".into() };
    // route 1
    let d = (|| -> Option<(Vec<u8>, usize)> {
        let mut out = Vec::new();
        let mut n = 0usize;
        for pa in pdu.path_attributes().ok()? {
            let owned = pa.ok()?.to_owned().ok()?;
            n += owned.compose_len();
            owned.compose(&mut out).ok()?;
        }
        Some((out, n))
    })();
    let d = match d { Some((o, n)) => format!("D{}#{}", hex(&o), n), None => "Derr".into() };
    // route 2
    let m = match PaMap::from_update_pdu(&pdu) {
        Ok(map) => {
            let mut out = Vec::new();
            let mut ok = true;
            for (_, pa) in map.attributes().iter() { if pa.compose(&mut out).is_err() { ok = false; } }
            if ok { format!("M{}#{}", hex(&out), map.bytes_len()) } else { "Merr".into() }
        }
        Err(_) => "Merr".into(),
    };
    // route 3
    let b = match UpdateBuilder::<Vec<u8>, Ipv4UnicastNlri>::from_update_message(&pdu, &sc, Vec::new()) {
        Ok(b) => match b.into_message(&sc) {
            Ok(msg) => format!("B{}", hex(msg.as_ref())),
            Err(_) => "Berr".into(),
        },
        Err(_) => "Berr".into(),
    };
    format!("ok {} {} {}", d, m, b)
}

macro_rules! readd {
    ($A:ty, $src:expr, $sc:expr, $twice:expr) => {{
        match UpdateBuilder::<Vec<u8>, $A>::from_update_message($src, $sc, Vec::new()) {
            Ok(mut b) => {
                b.add_announcements_from_pdu::<Bytes, Bytes>($src, $sc);
                b.add_withdrawals_from_pdu::<Bytes, Bytes>($src, $sc);
                // `nlt`: the same message re-added a second time - the branch of update_builder.rs:250 / :277 that
                // EXTENDS the MP builders the first round created
                if $twice {
                    b.add_announcements_from_pdu::<Bytes, Bytes>($src, $sc);
                    b.add_withdrawals_from_pdu::<Bytes, Bytes>($src, $sc);
                }
                b.into_message($sc).map(|m| m.as_ref().to_vec()).map_err(|_| ())
            }
            Err(_) => Err(()),
        }
    }};
}

/// NLRI octets of MP_UNREACH / MP_REACH, the other attributes of a built PDU, and what `finish` wrote in front of
/// the NLRI of the two MP attributes (attribute header, AFI/SAFI, next hop length + octets, reserved octet)
fn cut_built(pdu: &[u8]) -> Option<(Vec<u8>, Vec<u8>, Vec<u8>, Vec<u8>, Vec<u8>)> {
    if pdu.len() < 23 || pdu[19] != 0 || pdu[20] != 0 { return None; }
    let al = u16::from_be_bytes([pdu[21], pdu[22]]) as usize;
    if pdu.len() != 23 + al { return None; }
    let (mut w, mut a, mut o, mut mr, mut mu) = (Vec::new(), Vec::new(), Vec::new(), Vec::new(), Vec::new());
    let head = |fl: u8, code: u8, n: usize| -> Vec<u8> {
        let mut h = vec![fl, code];
        if fl & 0x10 != 0 { h.extend((n as u16).to_be_bytes()); } else { h.push(n as u8); }
        h
    };
    for (fl, code, val) in walk(&pdu[23..])? {
        match code {
            14 => {
                if val.len() < 5 { return None; }
                let nh = val[3] as usize;
                if val.len() < 5 + nh { return None; }
                a.extend_from_slice(&val[5 + nh..]);
                mr.extend(head(fl, code, val.len())); mr.extend_from_slice(&val[..5 + nh]);
            }
            15 => {
                if val.len() < 3 { return None; }
                w.extend_from_slice(&val[3..]);
                mu.extend(head(fl, code, val.len())); mu.extend_from_slice(&val[..3]);
            }
            _ => { o.extend(head(fl, code, val.len())); o.extend_from_slice(&val); }
        }
    }
    Some((w, a, o, mr, mu))
}

fn fnv32(raw: &[u8]) -> u32 { raw.iter().fold(2166136261u32, |h, b| (h ^ *b as u32).wrapping_mul(16777619)) }
fn sum32(raw: &[u8]) -> u32 { raw.iter().fold(0u32, |s, b| s.wrapping_add(*b as u32)) }
/// FNV-1a and octet sum of the WHOLE built PDU (marker, lengths, everything `cut_built` drops): compared with the
/// model's octets by the correspondence
fn digest(raw: &[u8]) -> String { format!("{}.{}.{}", raw.len(), fnv32(raw), sum32(raw)) }

fn exec_nl(f: Fam, wd: &[u8], ann: &[u8], attrs: &[u8], four: bool, twice: bool) -> String {
    if has_mp(attrs) { return "bad-op".into(); }
    // K9 (AS_PATH / AGGREGATOR written four octets wide) is judged on the re2w lines
    if !four && has_width_dependent(attrs) { return "bad-op".into(); }
    exec_readd(f, nl_pdu(f, wd, ann, attrs), four, twice)
}

/// `nlx`: the three sections as given (the attributes may hold MP attributes of any family)
fn exec_nlx(f: Fam, wd: &[u8], attrs: &[u8], ann: &[u8]) -> String {
    if f.conv { return "bad-op".into(); }
    exec_readd(f, mk_pdu(wd, attrs, ann), true, false)
}

fn exec_readd(f: Fam, raw: Vec<u8>, four: bool, twice: bool) -> String {
    // `UpdateMessage::from_octets` has no 4096-octet rule: the source may be as long as the length field can say
    if raw.len() > 65535 { return "bad-op".into(); }
    let mut sc = if four { SessionConfig::modern() } else { SessionConfig::legacy() };
    if f.ap { let (a, s, _) = fam_info(f); sc.add_addpath_rxtx(AfiSafiType::from((a, s))); }
    let src = match UpdateMessage::from_octets(Bytes::from(raw), &sc) { Ok(p) => p, Err(_) => return "rej".into() };
    let built: Result<Vec<u8>, ()> = match (f.b, f.ap) {
        (V4u, false) => readd!(Ipv4UnicastNlri, &src, &sc, twice),
        (V4u, true) => readd!(Ipv4UnicastAddpathNlri, &src, &sc, twice),
        (V4m, false) => readd!(Ipv4MulticastNlri, &src, &sc, twice),
        (V4m, true) => readd!(Ipv4MulticastAddpathNlri, &src, &sc, twice),
        (V4mpls, false) => readd!(Ipv4MplsUnicastNlri<Bytes>, &src, &sc, twice),
        (V4mpls, true) => readd!(Ipv4MplsUnicastAddpathNlri<Bytes>, &src, &sc, twice),
        (V4vpn, false) => readd!(Ipv4MplsVpnUnicastNlri<Bytes>, &src, &sc, twice),
        (V4vpn, true) => readd!(Ipv4MplsVpnUnicastAddpathNlri<Bytes>, &src, &sc, twice),
        (V4rt, false) => readd!(Ipv4RouteTargetNlri<Bytes>, &src, &sc, twice),
        (V4rt, true) => readd!(Ipv4RouteTargetAddpathNlri<Bytes>, &src, &sc, twice),
        (V4fs, false) => readd!(Ipv4FlowSpecNlri<Bytes>, &src, &sc, twice),
        (V4fs, true) => readd!(Ipv4FlowSpecAddpathNlri<Bytes>, &src, &sc, twice),
        (V6u, false) => readd!(Ipv6UnicastNlri, &src, &sc, twice),
        (V6u, true) => readd!(Ipv6UnicastAddpathNlri, &src, &sc, twice),
        (V6m, false) => readd!(Ipv6MulticastNlri, &src, &sc, twice),
        (V6m, true) => readd!(Ipv6MulticastAddpathNlri, &src, &sc, twice),
        (V6mpls, false) => readd!(Ipv6MplsUnicastNlri<Bytes>, &src, &sc, twice),
        (V6mpls, true) => readd!(Ipv6MplsUnicastAddpathNlri<Bytes>, &src, &sc, twice),
        (V6vpn, false) => readd!(Ipv6MplsVpnUnicastNlri<Bytes>, &src, &sc, twice),
        (V6vpn, true) => readd!(Ipv6MplsVpnUnicastAddpathNlri<Bytes>, &src, &sc, twice),
        (V6fs, false) => readd!(Ipv6FlowSpecNlri<Bytes>, &src, &sc, twice),
        (V6fs, true) => readd!(Ipv6FlowSpecAddpathNlri<Bytes>, &src, &sc, twice),
        (Vpls, false) => readd!(L2VpnVplsNlri, &src, &sc, twice),
        (Vpls, true) => readd!(L2VpnVplsAddpathNlri, &src, &sc, twice),
        (Evpn, false) => readd!(L2VpnEvpnNlri<Bytes>, &src, &sc, twice),
        (Evpn, true) => readd!(L2VpnEvpnAddpathNlri<Bytes>, &src, &sc, twice),
    };
    match built {
        Err(()) => "err".into(),
        Ok(pdu) => match cut_built(&pdu) {
            Some((w, a, o, mr, mu)) => format!("ok w={} a={} o={} r={} u={} d={}", hex(&w), hex(&a), hex(&o), hex(&mr), hex(&mu), digest(&pdu)),
            None => format!("ok undecodable {}", hex(&pdu)),
        },
    }
}

// ---------------------------------------------------------------------------
// oracle
// ---------------------------------------------------------------------------

fn field<'a>(tok: &'a str, tag: &str) -> Result<&'a str, String> {
    tok.strip_prefix(tag).ok_or(format!("reply token {} does not start with {}", trunc(tok), tag))
}
fn trunc(s: &str) -> String { if s.len() > 60 { format!("{}..", &s[..60]) } else { s.to_string() } }

fn oracle_re(attrs: &[u8], reply: &str, four: bool) -> Result<(), String> {
    if reply == "bad-op" { return Ok(()); }
    let src = match walk(attrs) { Some(s) => s, None => return if reply == "rej" { Ok(()) } else { Err("mis-framed section accepted".into()) } };
    if reply == "rej" { return Ok(()); }     // not an accepted UPDATE: outside the property
    if reply == "panic" { return Err("re-encoding an accepted UPDATE panicked".into()); }
    let toks: Vec<&str> = reply.split(' ').collect();
    if toks.len() != 4 || toks[0] != "ok" { return Err(format!("unexpected reply {}", trunc(reply))); }
    for t in &toks[1..3] { if t.ends_with("err") { return Err(format!("route {} did not succeed on an accepted UPDATE", &t[..1])); } }
    let (dh, dn) = field(toks[1], "D")?.split_once('#').ok_or("D without #")?;
    let d = unhex(dh).ok_or("D hex")?;
    let mv = map_view(&src);
    let (mh, mn) = field(toks[2], "M")?.split_once('#').ok_or("M without #")?;
    let m = unhex(mh).ok_or("M hex")?;
    // the builder route may fail for one reason only: the attributes re-encode to more than fits
    // MAX_PDU (known finding K12, reported below after everything else has been judged)
    let b_failed = toks[3] == "Berr";
    if b_failed && 23 + m.len() <= MAX_PDU { return Err("route B did not succeed on an accepted UPDATE".into()); }
    let b = if b_failed { Vec::new() } else { unhex(field(toks[3], "B")?).ok_or("B hex")? };
    // In a two-octet session first everything but the AS number width (the width-dependent
    // attributes read four octets wide), then the property as it stands.
    let passes: &[Read] = if four { &[Read::Same] } else { &[Read::Widened, Read::Same] };
    for &read in passes {
        // what fails only under `Same` in a two-octet session (everything else having passed under `Widened`) is
        // exactly the width of the AS numbers written: known finding K9, tagged so that only it is matched
        let tag = |e: String| if !four && read == Read::Same { format!("[K9] two-octet session: {}", e) } else { e };
        (|| -> Result<(), String> {
            // route 1: every attribute, in order
            judge_list_w("direct", &src, &d, four, read)?;
            if dn.parse::<usize>().ok() != Some(d.len()) { return Err(format!("direct: compose_len sum {} but {} octets written", dn, d.len())); }
            // route 2: the attribute map
            judge_list_w("map", &mv, &m, four, read)?;
            if mn.parse::<usize>().ok() != Some(m.len()) { return Err(format!("map: bytes_len {} but {} octets written", mn, m.len())); }
            // route 3: the builder's PDU
            if b_failed { return Ok(()); }
            if b.len() < 23 || b[..16].iter().any(|x| *x != 0xff) || b[18] != 2 { return Err("builder: not an UPDATE header".into()); }
            if u16::from_be_bytes([b[16], b[17]]) as usize != b.len() { return Err("builder: header length differs from the octets written".into()); }
            if b.len() > MAX_PDU { return Err("builder: PDU over 4096 octets".into()); }
            if b[19] != 0 || b[20] != 0 { return Err("builder: withdrawn routes in a PDU without NLRI".into()); }
            if u16::from_be_bytes([b[21], b[22]]) as usize != b.len() - 23 { return Err("builder: attribute length field differs from the octets written".into()); }
            judge_list_w("builder", &mv, &b[23..], four, read)?;
            if b[23..] != m[..] { return Err("builder and map routes wrote different octets".into()); }
            Ok(())
        })().map_err(tag)?;
    }
    if b_failed {
        return Err(format!("[K12] route B did not succeed on an accepted UPDATE: the attributes re-encode to {} octets, a PDU of {} > 4096 (PduTooLarge)", m.len(), 23 + m.len()));
    }
    Ok(())
}

fn kv<'a>(tok: &'a str, k: &str) -> Result<Vec<u8>, String> {
    unhex(tok.strip_prefix(k).ok_or(format!("missing {}", k))?).ok_or(format!("hex in {}", k))
}

/// what the property demands on one side (announced / withdrawn) of the re-added PDU: the NLRI of the builder's
/// family as the canonical reference encodings of their values (`ref_items`), in order.  `tol`: the list reached
/// an item the RFCs do not define (an implementation may accept or reject it): the items before it are demanded,
/// what follows is not judged; `slack` = the octets an implementation may then carry beyond `items`.
#[derive(Clone)]
struct Want { items: Vec<Vec<u8>>, tol: bool, slack: usize }

fn want_of(f: Fam, octets: &[u8]) -> Want {
    let (items, _, tol) = ref_items_tol(f, octets);
    Want { items, tol, slack: if tol { octets.len() + 64 } else { 0 } }   // (+ an MP attribute that may appear only because of them)
}
impl Want {
    /// the NLRI of a later section of the same side follow (K15: conventional section, then the MP attribute)
    fn then(mut self, o: Want) -> Want {
        if self.tol { self.slack += o.slack + o.items.iter().map(|x| x.len() + 1).sum::<usize>(); return self; }
        self.items.extend(o.items); self.tol = o.tol; self.slack = o.slack; self
    }
    /// the same list re-added a second time (`nlt`)
    fn twice(self) -> Want { let o = self.clone(); self.then(o) }
}

fn oracle_nl(f: Fam, wd: &[u8], ann: &[u8], attrs: &[u8], reply: &str, four: bool, twice: bool) -> Result<(), String> {
    if reply == "bad-op" || reply == "rej" { return Ok(()); }
    let (w, a) = (want_of(f, wd), want_of(f, ann));
    let (w, a) = if twice { (w.twice(), a.twice()) } else { (w, a) };
    oracle_readd(f, &w, &a, attrs, reply, four, nl_pdu(f, wd, ann, attrs).len(), twice)
}

/// the NLRI octets of family `f` an UPDATE with these sections carries on one side (`code` 14: announced,
/// 15: withdrawn), read off the octets by RFC 4271 4.3 / RFC 4760 3, 4 - every section, not a choice of one:
/// `conv` = the conventional section when the family is IPv4 unicast, `mp` = the NLRI of the MP attribute of that
/// type when it is of the family and framed (AFI, SAFI, next hop, reserved octet).  When the UPDATE holds the
/// attribute more than once - RFC 7606 3.g gives such an UPDATE no meaning ("MUST be treated as malformed":
/// routecore's `from_octets` accepts it all the same); the FIRST one is judged as the attribute, the NLRI of the
/// later ones are not judged (visible as `+dupmp` in the class).
struct Carried { conv: Vec<u8>, mp: Vec<u8> }

fn carried(f: Fam, conv: &[u8], attrs: &[Tlv], code: u8) -> Carried {
    let (afi, safi, _) = fam_info(f);
    let all: Vec<&Tlv> = attrs.iter().filter(|t| t.1 == code).collect();
    let mp = all.first().and_then(|t| {
        let v = &t.2;
        if v.len() < 3 || u16::from_be_bytes([v[0], v[1]]) != afi || v[2] != safi { return None; }
        if code == 15 { return Some(v[3..].to_vec()); }
        if v.len() < 5 { return None; }
        let nh = v[3] as usize;
        if v.len() < 5 + nh { return None; }
        Some(v[5 + nh..].to_vec())
    });
    Carried { conv: if f.b == V4u { conv.to_vec() } else { vec![] }, mp: mp.unwrap_or_default() }
}

fn oracle_nlx(f: Fam, wd: &[u8], attrs: &[u8], ann: &[u8], reply: &str) -> Result<(), String> {
    if reply == "bad-op" || reply == "rej" { return Ok(()); }
    let src = walk(attrs).ok_or("mis-framed section accepted")?;
    let cw = carried(f, wd, &src, 15);
    let ca = carried(f, ann, &src, 14);
    let rest: Vec<u8> = src.iter().filter(|t| t.1 != 14 && t.1 != 15).flat_map(|t| wire_attr(t.0, t.1, &t.2, t.0 & 0x10 != 0)).collect();
    let src_len = mk_pdu(wd, attrs, ann).len();
    // the property: EVERY NLRI of the builder's family the UPDATE carries, conventional section first, then the MP attribute
    let full_w = want_of(f, &cw.conv).then(want_of(f, &cw.mp));
    let full_a = want_of(f, &ca.conv).then(want_of(f, &ca.mp));
    let full = oracle_readd(f, &full_w, &full_a, &rest, reply, true, src_len, false);
    let (w_both, a_both) = (!cw.conv.is_empty() && !want_of(f, &cw.mp).items.is_empty(), !ca.conv.is_empty() && !want_of(f, &ca.mp).items.is_empty());
    match full {
        Ok(()) => Ok(()),
        // IPv4 unicast NLRI in the conventional section AND in an MP attribute of AFI/SAFI 1/1: when the reply is right in
        // every other respect and carries exactly the conventional NLRI on that side, the failure is the recorded loss
        // (known finding K15, tagged so that only it is matched); any other failure is reported as it is
        Err(e) if (w_both || a_both) && reply.starts_with("ok w=") => {
            let kw = if w_both { want_of(f, &cw.conv) } else { full_w.clone() };
            let ka = if a_both { want_of(f, &ca.conv) } else { full_a.clone() };
            if kw.tol || ka.tol { return Err(e); }
            match oracle_readd(f, &kw, &ka, &rest, reply, true, src_len, false) {
                Ok(()) => {
                    let (what, c, m) = if a_both { ("announcements", ca.conv.as_slice(), ca.mp.as_slice()) } else { ("withdrawals", cw.conv.as_slice(), cw.mp.as_slice()) };
                    Err(format!("[K15] IPv4 unicast {} both in the conventional section ({}) and in an MP attribute of AFI/SAFI 1/1 ({}): only the conventional ones written, those of the MP attribute are lost",
                        what, want_of(f, c).items.len(), want_of(f, m).items.len()))
                }
                Err(_) => Err(e),
            }
        }
        Err(e) => Err(e),
    }
}

/// `Attribute::compose_len` of an attribute with `n` value octets as RFC 4271 4.3 frames it (extended length above 255)
fn tlv_len(n: usize) -> usize { n + if n > 255 { 4 } else { 3 } }

/// `want_w` / `want_a`: what the property demands of the built PDU's withdrawals / announcements; `attrs`: the
/// UPDATE's attributes other than MP_REACH_NLRI / MP_UNREACH_NLRI; `src_len`: octets of the accepted UPDATE;
/// `twice`: an `nlt` line
fn oracle_readd(f: Fam, want_w: &Want, want_a: &Want, attrs: &[u8], reply: &str, four: bool, src_len: usize, twice: bool) -> Result<(), String> {
    if reply == "bad-op" || reply == "rej" { return Ok(()); }
    if reply == "panic" { return Err("re-adding the NLRI of an accepted UPDATE panicked".into()); }
    let src = walk(attrs).ok_or("mis-framed section accepted")?;
    let mv = map_view(&src);
    // The size of the PDU the property's result has, from the reference items alone (RFC 4271 4.3, RFC 4760 3 / 4):
    // header, empty withdrawn-routes section, the attribute map re-encoded (in the `nl*` lines every value is written
    // as received: width-dependent attributes are `bad-op` in a two-octet session), MP_REACH_NLRI with the default
    // next hop of the family, MP_UNREACH_NLRI; NLRI in the canonical encoding of their values.
    let (_, _, nh) = fam_info(f);
    let wl: usize = want_w.items.iter().map(|x| x.len()).sum();
    let al: usize = want_a.items.iter().map(|x| x.len()).sum();
    // (an AS path may be written in any segmentation that has the same hops - `judge_attr`: between the shortest
    // one and the one received)
    let as_min = |t: &Tlv| -> Option<usize> {
        if !(t.1 == 2 || t.1 == 17) || classify_w(t, four) != Class::Typed { return None; }
        let hops = ref_hops_w(&t.2, if four || t.1 == 17 { 4 } else { 2 })?;
        let (mut n, mut run) = (0usize, 0usize);
        let flush = |run: &mut usize, n: &mut usize| { if *run > 0 { *n += 2 * ((*run + 254) / 255) + 4 * *run; *run = 0; } };
        for h in &hops { match h { RHop::Asn(_) => run += 1, RHop::Seg(_, b) => { flush(&mut run, &mut n); n += 2 + b.len(); } } }
        flush(&mut run, &mut n);
        Some(n)
    };
    let map_lo: usize = mv.iter().map(|t| tlv_len(as_min(t).map_or(t.2.len(), |m| m.min(t.2.len())))).sum();
    let map_hi: usize = mv.iter().map(|t| tlv_len(as_min(t).map_or(t.2.len(), |m| m.max(t.2.len())))).sum();
    let mp_len = if al > 0 { tlv_len(2 + 1 + 1 + nh + 1 + al) } else { 0 } + if wl > 0 { tlv_len(3 + wl) } else { 0 };
    let size_lo = 23 + map_lo + mp_len;
    let size_hi = 23 + map_hi + mp_len + want_w.slack + want_a.slack;
    if reply == "err" {
        // "succeeds": a refusal is a failure of the clause.  `into_message` has one reason to refuse a builder seeded
        // this way - more than MAX_PDU octets: when the re-framed PDU demonstrably exceeds 4096 octets the failure is
        // the recorded one (known finding K16, tagged so that only it is matched); a refusal of a PDU that fits is not.
        if size_hi <= MAX_PDU { return Err(format!("the builder refused an UPDATE whose re-framed PDU has {} octets (<= 4096)", size_hi)); }
        // (`nlt`: the property does not speak of a message re-added twice - a doubled content that cannot fit is refused rightly)
        if size_lo > MAX_PDU && twice { return Ok(()); }
        if size_lo > MAX_PDU {
            return Err(format!("[K16] the re-add did not succeed on an accepted UPDATE of {} octets: re-framed with its NLRI in MP attributes the PDU has {} > 4096 octets (PduTooLarge)", src_len, size_lo));
        }
        return Ok(());   // an item the RFCs do not define decides the size: not judged
    }
    let toks: Vec<&str> = reply.split(' ').collect();
    if toks.len() != 7 || toks[0] != "ok" { return Err(format!("built PDU does not decode: {}", trunc(reply))); }
    let w = kv(toks[1], "w=")?;
    let a = kv(toks[2], "a=")?;
    let o = kv(toks[3], "o=")?;
    let mr = kv(toks[4], "r=")?;
    let mu = kv(toks[5], "u=")?;
    let total = 23 + w.len() + a.len() + o.len() + mr.len() + mu.len();
    if total > MAX_PDU { return Err(format!("the builder wrote a PDU of {} octets (> 4096)", total)); }
    // (`*tol`: the list – received or written – reaches an item the RFCs do not define; the items before it are judged)
    let (gw, wclean, gwtol) = ref_items_tol(f, &w);
    let (ga, aclean, gatol) = ref_items_tol(f, &a);
    if (!wclean && !gwtol) || (!aclean && !gatol) { return Err("the NLRI written do not all parse".into()); }
    if (!gwtol && gw.concat() != w) || (!gatol && ga.concat() != a) { return Err("the NLRI written are not in the canonical encoding of their values".into()); }
    let same = |got: &Vec<Vec<u8>>, want: &Vec<Vec<u8>>, tol: bool| -> bool {
        if tol { got.len() >= want.len() && got[..want.len()] == want[..] } else { got == want }
    };
    if !same(&gw, &want_w.items, want_w.tol) { return Err(format!("withdrawals differ: {} received, {} written", want_w.items.len(), gw.len())); }
    if !same(&ga, &want_a.items, want_a.tol) { return Err(format!("announcements differ: {} received, {} written", want_a.items.len(), ga.len())); }
    // the MP attributes that carry them are of the builder's family and framed as RFC 4760 3 / 4 say (optional
    // non-transitive, extended length exactly above 255 octets, a next hop of as many octets as its length octet
    // says, reserved octet 0).  WHICH next hop is written is not in the property (tools/props/C07.json `assumptions`):
    // its octets - the family's default one today - are compared by the correspondence (`r=` and the digest).
    let (afi, safi, _) = fam_info(f);
    let fam3 = [(afi >> 8) as u8, afi as u8, safi];
    let mut nh_got = nh;
    for (code, m, n_nlri) in [(14u8, &mr, a.len()), (15u8, &mu, w.len())] {
        if m.is_empty() { if n_nlri > 0 { return Err(format!("NLRI outside an attribute {}", code)); } continue; }
        let hl = if m[0] & 0x10 != 0 { 4 } else { 3 };
        if m.len() < hl + 3 { return Err(format!("attribute {} of the built PDU is cut short", code)); }
        let body = m.len() - hl;   // AFI, SAFI (, next hop length, next hop, reserved)
        let vlen = body + n_nlri;
        let mut want = vec![if vlen > 255 { 0x90u8 } else { 0x80 }, code];
        if vlen > 255 { want.extend((vlen as u16).to_be_bytes()); } else { want.push(vlen as u8); }
        want.extend(fam3);
        if m.len() < want.len() || m[..want.len()] != want[..] { return Err(format!("attribute {} of the built PDU: header / AFI / SAFI {}, expected {}", code, hex(&m[..m.len().min(want.len())]), hex(&want))); }
        if code == 14 {
            let t = &m[want.len()..];
            if t.len() < 2 || t.len() != t[0] as usize + 2 || t[t.len() - 1] != 0 { return Err(format!("MP_REACH_NLRI of the built PDU: next hop / reserved octet {}", hex(t))); }
            nh_got = t[0] as usize;
        } else if m.len() != want.len() { return Err("MP_UNREACH_NLRI of the built PDU: octets between SAFI and NLRI".into()); }
    }
    // the size the reference computes is the size written (this is the arithmetic the `err` branch judges with)
    let adj = |n: usize| if al > 0 { n + tlv_len(4 + nh_got + 1 + al) - tlv_len(4 + nh + 1 + al) } else { n };
    if !gwtol && !gatol && (total < adj(size_lo) || total > adj(size_hi)) { return Err(format!("built PDU of {} octets, {}..={} expected", total, adj(size_lo), adj(size_hi))); }
    judge_list_w("builder", &mv, &o, four, Read::Same)
}

// ---------------------------------------------------------------------------
// generators
// ---------------------------------------------------------------------------

fn gen_aspath(rng: &mut Rng) -> Vec<u8> {
    let mut v = Vec::new();
    let nseg = match rng.below(10) { 0 => 0, 1..=5 => 1, 6..=8 => 2, _ => 3 };
    for _ in 0..nseg {
        let t = match rng.below(8) { 0 => 1, 1 => 3, 2 => 4, _ => 2 };
        let n = match rng.below(40) { 0 => 0, 1 => 255, 2 => 130, _ => rng.usize(1, 4) };
        v.push(t);
        v.push(n as u8);
        for _ in 0..n { v.extend(rng.u32().to_be_bytes()); }
    }
    v
}

/// a valid value for a typed attribute
/// `n` list elements of `unit` octets; one time in four some elements REPEAT earlier ones (adjacent or
/// apart) - a receiver that re-encodes must not merge, sort or drop them (round-5 seed: LARGE_COMMUNITIES
/// de-duplicated in `to_owned`)
pub(crate) fn units(rng: &mut Rng, unit: usize, n: usize) -> Vec<u8> {
    let mut v: Vec<u8> = Vec::with_capacity(unit * n);
    let dup = rng.chance(1, 4);
    for i in 0..n {
        if dup && i > 0 && rng.chance(1, 2) {
            let j = if rng.chance(1, 2) { i - 1 } else { rng.usize(0, i - 1) };
            let e = v[j * unit..(j + 1) * unit].to_vec();
            v.extend_from_slice(&e);
        } else {
            v.extend(rng.bytes(unit));
        }
    }
    v
}

fn gen_val(rng: &mut Rng, code: u8) -> Vec<u8> {
    let big = rng.chance(1, 20);
    let k = |rng: &mut Rng, unit: usize| -> usize {
        if big { 256 / unit + rng.usize(1, 3) } else { rng.usize(if unit == 4 { 0 } else { 1 }, 3) }
    };
    match code {
        1 => vec![*rng.pick(&[0u8, 1, 2, 2, 0, 7])],
        2 | 17 => gen_aspath(rng),
        3 | 4 | 5 | 9 | 20 | 35 => rng.bytes(4),
        6 => vec![],
        7 | 18 => rng.bytes(8),
        8 | 10 => { let n = k(rng, 4); units(rng, 4, n) }
        16 => { let n = k(rng, 8); units(rng, 8, n) }
        21 => rng.bytes(5),
        25 => { let n = k(rng, 20); units(rng, 20, n) }
        32 => { let n = k(rng, 12); units(rng, 12, n) }
        128 => { let n = if big { 300 } else { rng.usize(0, 12) }; rng.bytes(4 + n) }
        255 => { let n = if big { 260 } else { rng.usize(0, 9) }; rng.bytes(n) }
        _ => { let n = rng.usize(0, 9); rng.bytes(n) }
    }
}

/// a recognised code for which a value of `n` octets is malformed
fn bad_code_for(rng: &mut Rng, n: usize) -> u8 {
    let pool: [u8; 19] = [1, 2, 3, 4, 5, 6, 7, 8, 9, 10, 16, 17, 18, 20, 21, 25, 32, 35, 128];
    for _ in 0..64 {
        let c = *rng.pick(&pool);
        if !ref_valid(c, &vec![0u8; n]) { return c; }
    }
    if n == 1 { 3 } else { 1 }
}

/// flags, code, value framed as received; `ext` forces the two-octet length
fn wire_attr(fl: u8, code: u8, val: &[u8], ext: bool) -> Vec<u8> {
    let mut v = Vec::new();
    if val.len() > 255 || ext {
        v.push(fl | 0x10); v.push(code); v.extend((val.len() as u16).to_be_bytes());
    } else {
        v.push(fl & !0x10); v.push(code); v.push(val.len() as u8);
    }
    v.extend_from_slice(val);
    v
}

fn gen_typed(rng: &mut Rng, code: u8) -> Vec<u8> {
    let val = gen_val(rng, code);
    // mostly the canonical flags, sometimes others (partial, wrong class): a typed attribute is
    // re-encoded with the canonical ones whatever it came with
    let fl = if rng.chance(1, 8) { *rng.pick(&[0x40u8, 0x80, 0xC0, 0xE0, 0x60, 0x00]) } else { ref_flags(code).unwrap() };
    wire_attr(fl, code, &val, rng.chance(1, 10))
}

fn gen_unknown(rng: &mut Rng) -> Vec<u8> {
    let code = *rng.pick(&UNKNOWN);
    let n = match rng.below(12) { 0 => 0, 1 => 255, 2 => 256, 3 => 300, 4 => rng.usize(257, 700), _ => rng.usize(0, 12) };
    let nib = rng.below(16) as u8;
    let low = if rng.chance(1, 10) { rng.below(16) as u8 } else { 0 };
    wire_attr((nib << 4) | low, code, &rng.bytes(n), nib & 1 != 0)
}

fn gen_invalid(rng: &mut Rng) -> Vec<u8> {
    let n = match rng.below(10) { 0 => 256, 1 => 300, 2 => rng.usize(257, 1000), 3 => 255, _ => rng.usize(0, 40) };
    let code = bad_code_for(rng, n);
    let mut val = rng.bytes(n);
    if code == 2 || code == 17 { val = vec![9, 9, 9]; }
    let fl = if rng.chance(1, 6) { *rng.pick(&[0x40u8, 0x80, 0xC0, 0xE0, 0x00]) } else { ref_flags(code).unwrap() };
    wire_attr(fl, code, &val, rng.chance(1, 6))
}

fn gen_mp(rng: &mut Rng) -> Vec<u8> {
    if rng.bool() {
        let mut v = vec![0u8, 2, 1, 16];
        v.extend(rng.bytes(16)); v.push(0);
        v.extend([32u8, 0x20, 0x01, 0x0d, 0xb8]);
        wire_attr(0x80, 14, &v, rng.chance(1, 8))
    } else {
        let mut v = vec![0u8, 2, 1];
        if rng.bool() { v.extend([16u8, 0x20, 0x01]); }
        wire_attr(0x80, 15, &v, false)
    }
}

/// a whole attribute section of mostly valid attributes
fn gen_section(rng: &mut Rng) -> Vec<u8> {
    let mut parts: Vec<Vec<u8>> = Vec::new();
    let mut budget = 3900usize;
    let n = match rng.below(10) { 0 => 0, 1 => 1, _ => rng.usize(2, 8) };
    for _ in 0..n {
        let a = match rng.below(20) {
            0..=10 => { let c = *rng.pick(&TYPED); gen_typed(rng, c) }
            11..=14 => gen_unknown(rng),
            15..=17 => gen_invalid(rng),
            18 => gen_mp(rng),
            _ => { if parts.is_empty() { gen_unknown(rng) } else { rng.pick(&parts).clone() } }   // repeated attribute
        };
        if a.len() <= budget { budget -= a.len(); parts.push(a); }
    }
    parts.concat()
}

/// damage inside the section: flags, codes, lengths, values
fn mutate(rng: &mut Rng, mut s: Vec<u8>) -> Vec<u8> {
    if s.is_empty() { return s; }
    for _ in 0..rng.usize(1, 2) {
        let i = rng.usize(0, s.len() - 1);
        match rng.below(4) {
            0 => s[i] ^= 1 << rng.below(8),
            1 => s[i] = rng.u8(),
            2 => s[i] = s[i].wrapping_add(1),
            _ => s[i] = *rng.pick(&[0u8, 1, 2, 3, 4, 8, 14, 15, 16, 0x40, 0x50, 0x80, 0xC0, 0xD0, 0xFF]),
        }
    }
    s
}

/// up to `max` well-formed NLRI of the family, mostly in the canonical encoding
fn gen_nlri(rng: &mut Rng, f: Fam, max: usize) -> Vec<u8> {
    let var = fam_var(f);
    let mut out = Vec::new();
    for _ in 0..rng.usize(0, max) {
        let mut v = c05::gen_val(rng, var);
        if var.shape == Shape::Fs && v.raw.len() > 300 && rng.chance(4, 5) {
            v.raw = if var.v6 { rng.bytes(7) } else { c05::gen_fs_components(rng, 7) };
        }
        if var.shape == Shape::Evpn && v.raw.len() > 100 && rng.chance(1, 2) { v.raw.truncate(23); }
        let mut e = ref_enc(var.shape, &v);
        let k = if var.ap { 4 } else { 0 };
        // other encodings of the same NLRI
        match var.shape {
            Shape::Fs if v.raw.len() < 240 && rng.chance(1, 8) => { let n = v.raw.len(); e.splice(k..k + 1, [0xf0u8, n as u8]); }
            Shape::Rt if v.raw.len() > 4 && rng.chance(1, 6) => { e[k] -= rng.below(8) as u8; } // stays within 33..=96 bits (RFC 4684)
            Shape::Vpls if rng.chance(1, 6) => { e[k] = rng.u8(); e[k + 1] = rng.u8(); }
            _ => {}
        }
        out.extend(e);
    }
    out
}

/// NLRI damage: a cut tail, a length octet that promises too much, a host bit
fn damage_nlri(rng: &mut Rng, mut v: Vec<u8>) -> Vec<u8> {
    if v.is_empty() { return vec![*rng.pick(&[0x40u8, 0x21, 0x19, 0xff])]; }
    match rng.below(3) {
        0 => { let k = rng.usize(1, v.len()); v.truncate(k); v }
        1 => { let i = rng.usize(0, v.len() - 1); v[i] = rng.u8(); v }
        _ => { v.push(*rng.pick(&[0x18u8, 0x80, 0x07])); v.push(0xff); v }
    }
}

/// one attribute of the (kind x length encoding) grid: `malformed` = a value the type's length rules refuse in
/// a session of that AS number width, `enc`: 0 = one-octet length, 1 = EXTENDED_LEN on a value of at most 255
/// octets, 2 = a value of more than 255 octets. `None` where the cell does not exist (a fixed-size kind has no
/// well-formed value over 255 octets, ATTR_SET no malformed one, the reserved type 255 no malformed value at all)
fn grid_attr(rng: &mut Rng, code: u8, malformed: bool, enc: u8, four: bool) -> Option<Vec<u8>> {
    let fixed = matches!(code, 1 | 3 | 4 | 5 | 6 | 7 | 9 | 18 | 20 | 21 | 35);
    let val: Vec<u8> = if !malformed {
        if enc == 2 {
            if fixed { return None; }
            match code {
                2 if !four => { let mut v = vec![2u8, 130]; for _ in 0..130 { v.extend(rng.u16().to_be_bytes()); } v }
                2 | 17 => { let t = *rng.pick(&[1u8, 2, 3, 4]); let mut v = vec![t, 70]; for _ in 0..70 { v.extend(rng.u32().to_be_bytes()); } v }
                8 | 10 => { let k = rng.usize(64, 80); rng.bytes(4 * k) }
                16 => { let k = rng.usize(33, 40); rng.bytes(8 * k) }
                25 => { let k = rng.usize(13, 16); rng.bytes(20 * k) }
                32 => { let k = rng.usize(22, 30); rng.bytes(12 * k) }
                128 => { let k = rng.usize(260, 400); rng.bytes(4 + k) }
                _ => { let k = rng.usize(256, 400); rng.bytes(k) }
            }
        } else {
            match code { 2 if !four => gen_aspath2(rng), 7 if !four => rng.bytes(6), _ => gen_val(rng, code) }
        }
    } else {
        let lens: Vec<usize> = if enc == 2 { (256..330).collect() } else { (0..40).collect() };
        let cand: Vec<usize> = lens.into_iter().filter(|&n| !ref_valid_w(code, &vec![0u8; n], four)).collect();
        if cand.is_empty() { return None; }
        let n = *rng.pick(&cand);
        // (an AS path of zero octets is well formed; zero octets of anything else make a segment of type 0)
        let mut v = rng.bytes(n);
        if code == 2 || code == 17 { for x in v.iter_mut().take(2) { *x = 0; } }
        v
    };
    if val.len() > 255 && enc != 2 { return None; }
    if !malformed && !ref_valid_w(code, &val, four) { return None; }
    Some(wire_attr(ref_flags(code).unwrap(), code, &val, enc != 0))
}

fn all_fams() -> Vec<Fam> {
    let mut v = vec![Fam { b: V4u, ap: false, conv: true }, Fam { b: V4u, ap: true, conv: true }];
    for x in BASES { v.push(Fam { b: x.1, ap: false, conv: false }); v.push(Fam { b: x.1, ap: true, conv: false }); }
    v
}

// ---- two-octet sessions

fn gen_aspath2(rng: &mut Rng) -> Vec<u8> {
    let mut v = Vec::new();
    let nseg = match rng.below(10) { 0 => 0, 1..=5 => 1, 6..=8 => 2, _ => 3 };
    for _ in 0..nseg {
        let t = match rng.below(8) { 0 => 1, 1 => 3, 2 => 4, _ => 2 };
        let n = match rng.below(40) { 0 => 0, 1 => 255, 2 => 130, _ => rng.usize(1, 4) };
        v.push(t);
        v.push(n as u8);
        for _ in 0..n { v.extend(match rng.below(6) { 0 => 23456u16, 1 => 0, 2 => 65535, _ => rng.u16() }.to_be_bytes()); }
    }
    v
}

/// a typed attribute as a two-octet speaker sends it
fn gen_typed2(rng: &mut Rng, code: u8) -> Vec<u8> {
    let val = match code { 2 => gen_aspath2(rng), 7 => rng.bytes(6), _ => gen_val(rng, code) };
    let fl = if rng.chance(1, 8) { *rng.pick(&[0x40u8, 0x80, 0xC0, 0xE0, 0x60, 0x00]) } else { ref_flags(code).unwrap() };
    wire_attr(fl, code, &val, rng.chance(1, 10))
}

/// a section of a two-octet session: (`re2w` section, the same without its width-dependent attributes)
fn gen_section2(rng: &mut Rng) -> (Vec<u8>, Vec<u8>) {
    let mut parts: Vec<Vec<u8>> = Vec::new();
    let n = match rng.below(10) { 0 => 1, _ => rng.usize(2, 7) };
    for _ in 0..n {
        let a = match rng.below(20) {
            0..=3 => gen_typed2(rng, 2),
            4..=5 => gen_typed2(rng, 7),
            6..=7 => gen_typed2(rng, 17),
            8 => gen_typed2(rng, 18),
            // what a four-octet speaker would send: malformed here
            9 => { let c = *rng.pick(&[2u8, 7]); gen_typed(rng, c) }
            10..=14 => { let c = *rng.pick(&TYPED); gen_typed2(rng, c) }
            15..=16 => gen_unknown(rng),
            17..=18 => gen_invalid(rng),
            _ => { if parts.is_empty() { gen_typed2(rng, 2) } else { rng.pick(&parts).clone() } }
        };
        if parts.iter().map(|x| x.len()).sum::<usize>() + a.len() < 3900 { parts.push(a); }
    }
    let all = parts.concat();
    let rest: Vec<u8> = parts.iter().filter(|p| walk(p).map_or(true, |w| !w.iter().any(width_dependent))).flatten().copied().collect();
    (all, rest)
}

fn re2_line(sec: &[u8]) -> String { format!("{} {}", if has_width_dependent(sec) { "re2w" } else { "re2" }, hex(sec)) }

impl Prop for C07 {
    fn gen(&self, rng: &mut Rng, tier: Tier) -> Vec<String> {
        let mut lines = Vec::new();
        let re = |s: &[u8]| format!("re {}", hex(s));
        // 1. unknown types: all 16 flag nibbles x boundary lengths x both length encodings
        for nib in 0..16u8 {
            for &n in &[0usize, 1, 2, 255, 256, 300, 1000] {
                let code = UNKNOWN[(nib as usize + n) % UNKNOWN.len()];
                let val = rng.bytes(n);
                lines.push(re(&wire_attr(nib << 4, code, &val, nib & 1 != 0)));
                // next to a typed attribute on either side
                let mut s = gen_typed(rng, 1);
                s.extend(wire_attr(nib << 4, code, &val, nib & 1 != 0));
                s.extend(gen_typed(rng, 8));
                lines.push(re(&s));
            }
        }
        // 2. recognised types, malformed values of every length 0..=1000 (both length encodings
        //    where the length allows)
        for n in 0..=1000usize {
            let code = bad_code_for(rng, n);
            let val = rng.bytes(n);
            let ext = n > 255 || n % 3 == 0;
            let fl = ref_flags(code).unwrap();
            let mut s = if n % 2 == 0 { gen_typed(rng, 5) } else { vec![] };
            s.extend(wire_attr(fl, code, &val, ext));
            if n % 5 == 0 { s.extend(gen_typed(rng, 32)); }
            lines.push(re(&s));
        }
        // 3. every typed kind alone, with canonical and foreign flags, both length encodings
        for &c in &TYPED {
            for _ in 0..6 { lines.push(re(&gen_typed(rng, c))); }
        }
        // 4. sections
        let n_sec = if tier == Tier::Quick { 2200 } else { 200_000 };
        for i in 0..n_sec {
            let s = gen_section(rng);
            lines.push(re(&if i % 4 == 3 { mutate(rng, s) } else { s }));
        }
        // 4b. accepted UPDATEs around and over 4096 octets (from_octets takes them up to 65535): the direct and
        //     map routes must succeed, the builder route up to a PDU of exactly 4096 octets (above: K12)
        for &n in &[4000usize, 4068, 4069, 4070, 4071, 4080, 5000, 20000, 43000] {
            let code = UNKNOWN[n % UNKNOWN.len()];
            lines.push(re(&wire_attr(0xC0, code, &rng.bytes(n), true)));
            // next to typed attributes; a malformed recognised attribute of that size
            let mut s = gen_typed(rng, 1);
            s.extend(wire_attr(0xC0, code, &rng.bytes(n - 20), true));
            s.extend(gen_typed(rng, 8));
            lines.push(re(&s));
            lines.push(re(&wire_attr(0x40, 5, &rng.bytes(n), true)));
        }
        for k in [3usize, 4, 5, 9] {
            // several attributes of ~1000 octets each: over the limit only together
            let mut s = Vec::new();
            for j in 0..k { s.extend(wire_attr(0xC0, UNKNOWN[j % UNKNOWN.len()], &rng.bytes(1010 + j), true)); }
            lines.push(re(&s));
        }
        // 5. NLRI re-added: 13 families + the conventional sections, each without and with ADD-PATH
        let fams = all_fams();
        let n_nl = if tier == Tier::Quick { 1960 } else { 150_000 };
        for i in 0..n_nl {
            let f = fams[i % fams.len()];
            let mut wd = if rng.chance(1, 2) { gen_nlri(rng, f, 6) } else { vec![] };
            let mut ann = if rng.chance(3, 4) { gen_nlri(rng, f, 8) } else { vec![] };
            if !f.conv && rng.chance(1, 5) { if rng.bool() { ann = damage_nlri(rng, ann); } else { wd = damage_nlri(rng, wd); } }
            if f.conv && rng.chance(1, 12) { ann = damage_nlri(rng, ann); }
            let mut parts: Vec<u8> = Vec::new();
            for _ in 0..rng.usize(0, 4) {
                let a = match rng.below(6) { 0..=3 => { let c = *rng.pick(&TYPED); gen_typed(rng, c) } 4 => gen_unknown(rng), _ => gen_invalid(rng) };
                if parts.len() + a.len() < 2000 { parts.extend(a); }
            }
            lines.push(format!("nl {} {} {} {}", fam_name(f), hex(&wd), hex(&ann), hex(&parts)));
        }
        // 5b. the same in a two-octet session (SessionConfig::legacy(), + ADD-PATH for the `a` families): the
        //     attributes are those a two-octet speaker sends, minus the width-dependent ones (K9: re2w lines)
        let n_nl2 = if tier == Tier::Quick { 560 } else { 40_000 };
        for i in 0..n_nl2 {
            let f = fams[i % fams.len()];
            let mut wd = if rng.chance(1, 2) { gen_nlri(rng, f, 5) } else { vec![] };
            let mut ann = if rng.chance(3, 4) { gen_nlri(rng, f, 6) } else { vec![] };
            if !f.conv && rng.chance(1, 5) { if rng.bool() { ann = damage_nlri(rng, ann); } else { wd = damage_nlri(rng, wd); } }
            if f.conv && rng.chance(1, 12) { ann = damage_nlri(rng, ann); }
            let mut parts: Vec<u8> = Vec::new();
            for _ in 0..rng.usize(0, 4) {
                let a = match rng.below(7) {
                    0..=3 => { let c = *rng.pick(&TYPED); gen_typed2(rng, c) }
                    4 => { let c = *rng.pick(&[17u8, 18]); gen_typed2(rng, c) }
                    5 => gen_unknown(rng),
                    _ => gen_invalid(rng) };
                if walk(&a).map_or(false, |w| w.iter().any(width_dependent)) { continue; }
                if parts.len() + a.len() < 2000 { parts.extend(a); }
            }
            lines.push(format!("nl2 {} {} {} {}", fam_name(f), hex(&wd), hex(&ann), hex(&parts)));
        }
        // 5c. placement: UPDATEs mixing conventional IPv4 NLRI with MP attributes of the builder's or of another
        //     family, MP attributes of another family only, two MP_REACH_NLRI, a next hop cut short - for builders
        //     of all 26 NLRI types (a family is never put both in the conventional and in an MP section of one side)
        let n_nlx = if tier == Tier::Quick { 780 } else { 60_000 };
        let mpf: Vec<Fam> = fams.iter().copied().filter(|f| !f.conv).collect();
        for i in 0..n_nlx {
            let f = mpf[i % mpf.len()];
            // the conventional sections carry path ids exactly when the session has ADD-PATH for IPv4 unicast
            let cf = Fam { b: V4u, ap: f.b == V4u && f.ap, conv: true };
            let other = |rng: &mut Rng| -> Fam { loop { let g = *rng.pick(&mpf); if g.b != f.b { return Fam { ap: false, ..g }; } } };
            let mp = |rng: &mut Rng, g: Fam, code: u8, n: usize, cut_nh: bool| -> Vec<u8> {
                let (afi, safi, nh) = fam_info(g);
                let mut v = Vec::new();
                v.extend(afi.to_be_bytes()); v.push(safi);
                if code == 14 { v.push(if cut_nh { 200 } else { nh as u8 }); v.extend(std::iter::repeat(1u8).take(nh)); v.push(0); }
                v.extend(gen_nlri(rng, g, n));
                mp_attr(code, &v)
            };
            let mut attrs: Vec<u8> = Vec::new();
            let (mut wd, mut ann) = (vec![], vec![]);
            let sc = i / mpf.len() % 6;
            let conv_ok = f.b != V4u;   // never IPv4 unicast on both sides of one direction
            match sc {
                0 => {   // conventional sections next to MP attributes of the builder's family (or, for an IPv4 unicast builder, of another)
                    wd = gen_nlri(rng, cf, 4); ann = gen_nlri(rng, cf, 4);
                    let g = if conv_ok { f } else { other(rng) };
                    attrs.extend(mp(rng, g, 14, 4, false)); attrs.extend(mp(rng, g, 15, 4, false));
                }
                1 => { let g = other(rng); attrs.extend(mp(rng, g, 14, 4, false)); attrs.extend(mp(rng, g, 15, 4, false)); }
                2 => {   // MP_REACH of the builder's family, MP_UNREACH of another (and the other way round)
                    let g = other(rng);
                    if rng.bool() { attrs.extend(mp(rng, f, 14, 5, false)); attrs.extend(mp(rng, g, 15, 4, false)); }
                    else { attrs.extend(mp(rng, g, 14, 4, false)); attrs.extend(mp(rng, f, 15, 5, false)); }
                    if conv_ok && rng.bool() { ann = gen_nlri(rng, cf, 3); }
                }
                3 => {   // two MP_REACH_NLRI / two MP_UNREACH_NLRI: the first one counts
                    let g = other(rng);
                    let code = if rng.bool() { 14 } else { 15 };
                    let (x, y) = if rng.bool() { (f, g) } else { (g, f) };
                    attrs.extend(mp(rng, x, code, 4, false)); attrs.extend(mp(rng, y, code, 4, false));
                }
                4 => {   // next hop length running past the attribute: `announcements()` is an Err, nothing is added
                    attrs.extend(mp(rng, f, 14, 3, true)); attrs.extend(mp(rng, f, 15, 3, false));
                }
                _ => {   // IPv4 unicast builder on conventional sections next to MP attributes; others: withdrawals only, both places
                    if conv_ok { wd = gen_nlri(rng, cf, 4); attrs.extend(mp(rng, f, 15, 4, false)); }
                    else { wd = gen_nlri(rng, cf, 4); ann = gen_nlri(rng, cf, 4); let g = other(rng); attrs.extend(mp(rng, g, 15, 3, false)); }
                }
            }
            // (known finding K15) for IPv4 unicast builders now and then the family in both places of one side
            if !conv_ok && sc == 5 && rng.chance(1, 2) {
                let g = Fam { conv: false, ..f };
                attrs.clear();
                if rng.bool() { attrs.extend(mp(rng, g, 14, 2, false)); if ann.is_empty() { ann = gen_nlri(rng, cf, 2); } }
                else { attrs.extend(mp(rng, g, 15, 2, false)); if wd.is_empty() { wd = gen_nlri(rng, cf, 2); } }
            }
            // other attributes before, between (not here) and after
            let pre = if rng.bool() { gen_typed(rng, 1) } else { vec![] };
            let post = match rng.below(4) { 0 => gen_unknown(rng), 1 => gen_typed(rng, 8), 2 => gen_invalid(rng), _ => vec![] };
            let all: Vec<u8> = [pre, attrs, post].concat();
            lines.push(format!("nlx {} {} {} {}", fam_name(f), hex(&wd), hex(&all), hex(&ann)));
        }
        // 5d. the size boundary of the re-add (audit R1 / R2 / R6): accepted UPDATEs whose re-framed PDU lands on and
        //     around 4096 octets.  Conventional IPv4 NLRI grow by 13 octets when they move into MP_REACH_NLRI (4 header,
        //     3 AFI/SAFI, 5 next hop, 1 reserved) and by 7 into MP_UNREACH_NLRI; an MP source with a next hop shorter
        //     than the family's default one grows by the difference; sources over 4096 octets (from_octets takes
        //     them) that shrink under the map (a repeated attribute) fit again.  `err` replies here are K16.
        {
            // (i) ORIGIN + conventional /24s (+ one shorter prefix to hit every octet): source of exactly `t` octets
            let conv_fill = |ap: bool, n: usize| -> Vec<u8> {
                let unit = if ap { 8 } else { 4 };
                let mut v = Vec::new();
                let (k, r) = (n / unit, n % unit);
                for i in 0..k { if ap { v.extend((i as u32).to_be_bytes()); } v.extend([24u8, 10 + (i / 65536) as u8, (i / 256) as u8, i as u8]); }
                // the remainder as one prefix of r - 1 address octets (without path id) where that is an NLRI
                if !ap { match r { 1 => v.push(0), 2 => v.extend([8u8, 99]), 3 => v.extend([16u8, 99, 1]), _ => {} } }
                v
            };
            let origin = wire_attr(0x40, 1, &[0], false);
            let ts: &[usize] = if tier == Tier::Quick { &[4079, 4082, 4083, 4084, 4085, 4089, 4090, 4095, 4096] } else { &[4070, 4075, 4076, 4077, 4078, 4079, 4080, 4081, 4082, 4083, 4084, 4085, 4086, 4087, 4088, 4089, 4090, 4091, 4092, 4093, 4094, 4095, 4096] };
            for &t in ts {
                for ap in [false, true] {
                    let name = if ap { "a" } else { "" };
                    let room = t - 23 - origin.len();
                    // announcements only; withdrawals only; both (half / half)
                    lines.push(format!("nl c4{} - {} {}", name, hex(&conv_fill(ap, room)), hex(&origin)));
                    lines.push(format!("nl c4{} {} - {}", name, hex(&conv_fill(ap, room)), hex(&origin)));
                    lines.push(format!("nl c4{} {} {} {}", name, hex(&conv_fill(ap, room / 2)), hex(&conv_fill(ap, room - room / 2)), hex(&origin)));
                    lines.push(format!("nlx v4u{} - {} {}", name, hex(&origin), hex(&conv_fill(ap, room))));
                }
            }
            // (ii) every NLRI type: a few NLRI and a filler attribute that brings the source to exactly `t` octets
            let ts2: &[usize] = &[4076, 4082, 4083, 4084, 4089, 4090, 4095, 4096, 4097, 4110, 5000, 40000];
            for (i, &f) in fams.iter().enumerate() {
                for (j, &t) in ts2.iter().enumerate() {
                    if tier == Tier::Quick && !f.conv && (i + j) % 3 != 0 && t != 4096 && t != 4097 { continue; }
                    let ann = gen_nlri(rng, f, 3);
                    let wd = if rng.bool() { gen_nlri(rng, f, 2) } else { vec![] };
                    let base = nl_pdu(f, &wd, &ann, &origin).len() + 4;
                    if base > t { continue; }
                    let mut at = origin.clone();
                    at.extend(wire_attr(0xC0, UNKNOWN[(i + j) % UNKNOWN.len()], &rng.bytes(t - base), true));
                    lines.push(format!("{} {} {} {} {}", if j % 4 == 3 { "nl2" } else { "nl" }, fam_name(f), hex(&wd), hex(&ann), hex(&at)));
                }
                // a source over 4096 octets that fits again: the map keeps the first of a repeated attribute
                let ann = gen_nlri(rng, f, 3);
                let big = wire_attr(0xC0, 99, &rng.bytes(2100), true);
                lines.push(format!("nl {} - {} {}", fam_name(f), hex(&ann), hex(&[origin.clone(), big.clone(), big].concat())));
            }
            // (iii) MP sources whose next hop is shorter (0 octets) or longer (32) than the family's default one, filled
            //       with NLRI of the family up to around 4096 octets
            for &f in mpf.iter() {
                let (afi, safi, nh) = fam_info(f);
                for &(nhl, target) in &[(0usize, 4096usize), (0, 4096 - nh), (32, 4096), (32, 4096 + 32 - nh)] {
                    if tier == Tier::Quick && rng.chance(1, 2) { continue; }
                    let mut v = Vec::new();
                    v.extend(afi.to_be_bytes()); v.push(safi); v.push(nhl as u8); v.extend(std::iter::repeat(2u8).take(nhl)); v.push(0);
                    let goal = target - rng.usize(0, 6);
                    let mut guard = 0;
                    while 23 + origin.len() + 4 + v.len() < goal && guard < 4000 {
                        let one = gen_nlri(rng, f, 1);
                        if 23 + origin.len() + 4 + v.len() + one.len() <= goal + 3 && one.len() < 300 { v.extend(one); }
                        guard += 1;
                    }
                    lines.push(format!("nlx {} - {} -", fam_name(f), hex(&[origin.clone(), mp_attr(14, &v)].concat())));
                }
            }
        }
        // 5e. the message re-added TWICE by one builder (`nlt`, audit R5): the second round extends the MP builders the
        //     first one created (update_builder.rs:250 / :277) - every NLRI of the family is carried twice, in order
        let n_nlt = if tier == Tier::Quick { 280 } else { 20_000 };
        for i in 0..n_nlt {
            let f = fams[i % fams.len()];
            let mut wd = if rng.chance(1, 2) { gen_nlri(rng, f, 4) } else { vec![] };
            let mut ann = if rng.chance(3, 4) { gen_nlri(rng, f, 5) } else { vec![] };
            if !f.conv && rng.chance(1, 6) { if rng.bool() { ann = damage_nlri(rng, ann); } else { wd = damage_nlri(rng, wd); } }
            let mut parts: Vec<u8> = Vec::new();
            for _ in 0..rng.usize(0, 3) {
                let a = match rng.below(6) { 0..=3 => { let c = *rng.pick(&TYPED); gen_typed(rng, c) } 4 => gen_unknown(rng), _ => gen_invalid(rng) };
                if parts.len() + a.len() < 1500 { parts.extend(a); }
            }
            lines.push(format!("nlt {} {} {} {}", fam_name(f), hex(&wd), hex(&ann), hex(&parts)));
        }
        // 6. two-octet sessions: every typed kind alone, AS paths / AGGREGATOR of both widths, sections
        for &c in &TYPED {
            for _ in 0..3 { lines.push(re2_line(&gen_typed2(rng, c))); }
            lines.push(re2_line(&gen_typed(rng, c)));
        }
        for n in [0usize, 1, 2, 127, 128, 255] {
            for t in 1..=4u8 {
                let mut v = vec![t, n as u8];
                for _ in 0..n { v.extend(rng.u16().to_be_bytes()); }
                lines.push(re2_line(&wire_attr(0x40, 2, &v, false)));
                let mut s = wire_attr(0x40, 1, &[0], false);
                s.extend(wire_attr(0x40, 2, &v, n > 100));
                s.extend(wire_attr(0xC0, 17, &{ let mut w = vec![t, n.min(60) as u8]; for _ in 0..n.min(60) { w.extend(rng.u32().to_be_bytes()); } w }, false));
                s.extend(wire_attr(0xC0, 7, &rng.bytes(6), false));
                s.extend(wire_attr(0xC0, 18, &rng.bytes(8), false));
                lines.push(re2_line(&s));
            }
        }
        let n_re2 = if tier == Tier::Quick { 450 } else { 40_000 };
        for i in 0..n_re2 {
            let (all, rest) = gen_section2(rng);
            let all = if i % 5 == 4 { mutate(rng, all) } else { all };
            lines.push(re2_line(&all));
            // the sibling without the width-dependent attributes: every other clause is checked there
            // without known finding K9 in the way
            if rest != all { lines.push(re2_line(&rest)); }
        }
        // 7. the grid (found thin by tools/c07_attr_stats.py): every typed kind x well formed / malformed x the
        //    three length encodings on input, in a four-octet and in a two-octet session, alone and after an ORIGIN
        for &four in &[true, false] {
            for &c in &TYPED {
                for malformed in [false, true] {
                    for enc in 0..3u8 {
                        for k in 0..3 {
                            if let Some(a) = grid_attr(rng, c, malformed, enc, four) {
                                let s = if k == 2 { let mut s = wire_attr(0x40, 1, &[1], false); s.extend(a); s } else { a };
                                lines.push(if four { re(&s) } else { re2_line(&s) });
                            }
                        }
                    }
                }
            }
        }
        lines
    }

    fn exec(&self, line: &str) -> String {
        let t: Vec<&str> = line.split(' ').collect();
        match t.as_slice() {
            ["re", a] => match strict_unhex(a) { Some(a) => exec_re(&a, None), None => "bad-op".into() },
            ["re2", a] => match strict_unhex(a) { Some(a) => exec_re(&a, Some(false)), None => "bad-op".into() },
            ["re2w", a] => match strict_unhex(a) { Some(a) => exec_re(&a, Some(true)), None => "bad-op".into() },
            ["nl", f, w, a, at] => match (fam_of(f), strict_unhex(w), strict_unhex(a), strict_unhex(at)) {
                (Some(f), Some(w), Some(a), Some(at)) => exec_nl(f, &w, &a, &at, true, false),
                _ => "bad-op".into(),
            },
            ["nlt", f, w, a, at] => match (fam_of(f), strict_unhex(w), strict_unhex(a), strict_unhex(at)) {
                (Some(f), Some(w), Some(a), Some(at)) => exec_nl(f, &w, &a, &at, true, true),
                _ => "bad-op".into(),
            },
            ["nl2", f, w, a, at] => match (fam_of(f), strict_unhex(w), strict_unhex(a), strict_unhex(at)) {
                (Some(f), Some(w), Some(a), Some(at)) => exec_nl(f, &w, &a, &at, false, false),
                _ => "bad-op".into(),
            },
            ["nlx", f, w, at, a] => match (fam_of(f), strict_unhex(w), strict_unhex(at), strict_unhex(a)) {
                (Some(f), Some(w), Some(at), Some(a)) => exec_nlx(f, &w, &at, &a),
                _ => "bad-op".into(),
            },
            _ => "bad-op".into(),
        }
    }

    fn oracle(&self, line: &str, reply: &str) -> Result<(), String> {
        let t: Vec<&str> = line.split(' ').collect();
        match t.as_slice() {
            ["re", a] => match strict_unhex(a) { Some(a) => oracle_re(&a, reply, true), None => Ok(()) },
            ["re2", a] | ["re2w", a] => match strict_unhex(a) { Some(a) => oracle_re(&a, reply, false), None => Ok(()) },
            ["nl", f, w, a, at] => match (fam_of(f), strict_unhex(w), strict_unhex(a), strict_unhex(at)) {
                (Some(f), Some(w), Some(a), Some(at)) => oracle_nl(f, &w, &a, &at, reply, true, false),
                _ => Ok(()),
            },
            ["nlt", f, w, a, at] => match (fam_of(f), strict_unhex(w), strict_unhex(a), strict_unhex(at)) {
                (Some(f), Some(w), Some(a), Some(at)) => oracle_nl(f, &w, &a, &at, reply, true, true),
                _ => Ok(()),
            },
            ["nl2", f, w, a, at] => match (fam_of(f), strict_unhex(w), strict_unhex(a), strict_unhex(at)) {
                (Some(f), Some(w), Some(a), Some(at)) => oracle_nl(f, &w, &a, &at, reply, false, false),
                _ => Ok(()),
            },
            ["nlx", f, w, at, a] => match (fam_of(f), strict_unhex(w), strict_unhex(at), strict_unhex(a)) {
                (Some(f), Some(w), Some(at), Some(a)) if !f.conv => oracle_nlx(f, &w, &at, &a, reply),
                _ => Ok(()),
            },
            _ => Ok(()),
        }
    }

    fn nontrivial(&self, _line: &str, reply: &str) -> bool { reply.starts_with("ok") }

    fn class(&self, line: &str, reply: &str) -> String {
        let t: Vec<&str> = line.split(' ').collect();
        let r = reply.split(' ').next().unwrap_or("");
        match t.as_slice() {
            [op @ ("re" | "re2" | "re2w"), a] => {
                let four = *op == "re";
                let kinds = match strict_unhex(a).and_then(|a| walk(&a)) {
                    Some(w) => {
                        let (mut ty, mut inv, mut unk, mut ext_short, mut long) = (false, false, false, false, false);
                        for x in &w {
                            match classify_w(x, four) { Class::Typed => ty = true, Class::Invalid => inv = true, Class::Unknown => unk = true }
                            if x.0 & 0x10 != 0 && x.2.len() <= 255 { ext_short = true; }
                            if x.2.len() > 255 { long = true; }
                        }
                        format!("{}{}{}{}{}", if ty { "t" } else { "" }, if inv { "i" } else { "" }, if unk { "u" } else { "" },
                            if ext_short { "+extshort" } else { "" }, if long { "+long" } else { "" })
                    }
                    None => "misframed".into(),
                };
                format!("{}:{}:{}", op, r, kinds)
            }
            [op @ ("nl" | "nl2" | "nlt"), f, ..] => format!("{}:{}:{}", op, f, r),
            ["nlx", f, w, at, a] => {
                // which sections carry NLRI, and whether an MP attribute is of the builder's family
                let own = |code: u8| -> &'static str {
                    let (afi, safi) = fam_of(f).map(|f| { let (a, s, _) = fam_info(f); (a, s) }).unwrap_or((0, 0));
                    match strict_unhex(at).and_then(|x| walk(&x)).and_then(|ws| ws.into_iter().find(|t| t.1 == code)) {
                        None => "-",
                        Some(t) => if t.2.len() >= 3 && u16::from_be_bytes([t.2[0], t.2[1]]) == afi && t.2[2] == safi { "own" } else { "other" },
                    }
                };
                // `+dupmp`: MP_REACH_NLRI / MP_UNREACH_NLRI more than once (RFC 7606 3.g: the NLRI of the later ones are not
                // judged); `+foreign`: NLRI of a family other than the builder's are present - they are not re-added (the
                // clause is per builder family, tools/props/C07.json `assumptions`)
                let n_of = |code: u8| strict_unhex(at).and_then(|x| walk(&x)).map_or(0, |ws| ws.iter().filter(|t| t.1 == code).count());
                let v4 = fam_of(f).map_or(false, |f| f.b == V4u);
                let foreign = own(14) == "other" || own(15) == "other" || (!v4 && (*w != "-" || *a != "-"));
                format!("nlx:{}:conv{}{}:reach-{}:unreach-{}{}{}", r, if *w != "-" { "W" } else { "" }, if *a != "-" { "A" } else { "" }, own(14), own(15),
                    if n_of(14) > 1 || n_of(15) > 1 { "+dupmp" } else { "" }, if foreign { "+foreign" } else { "" })
            }
            _ => format!("other:{}", r),
        }
    }
}
