//! C14: ==, cmp, partial_cmp and Hash of NLRI agree; ADD-PATH NLRI are equal
//! only if both the path id and the NLRI are equal.
//!
//! Ops (model side: lean/Rc/Drv/C14.lean):
//!   cmp V A B            typed ==, !=, cmp both ways, partial_cmp, Hash, and the same
//!                        values decoded from Bytes and rebuilt over Vec<u8>
//!   tri V A B C          the three pairwise cmp / ==
//!   any VA A VB B        through the `Nlri` enum (variants may differ)
//!   anytri VA A VB B VC C
//!   vcmp V TOKENS / TOKENS           two values given field by field (C05's `val` tokens), built
//!   vtri V TOKENS / TOKENS / TOKENS  through serde Deserialize – the way to obtain values no parser
//!                        returns (an `afi` that is not the family's inside IpvNFlowSpecNlri, label
//!                        octets that are not whole labels, EvpnRouteType::Unimplemented(1..=5), route
//!                        targets of any length); compared typed AND wrapped in the `Nlri` enum
//! A, B, C are canonical wire encodings of one NLRI each (reference encoder of
//! c05.rs), so two of them denote equal values exactly when the hex strings
//! are equal – that is what the oracle holds `==` against.
use super::c05::{buildable, ref_dec, gen_addr, gen_fs_components, gen_labels, gen_val, host_zero, read, ref_enc, ref_wf, show, to_json, unhex_strict, variant, Shape, Val, Var, VARIANTS};
use crate::common::*;
use octseq::Parser;
use routecore::bgp::nlri::afisafi::*;
use std::cmp::Ordering;
use std::hash::{Hash, Hasher};

pub struct C14;

fn h64<T: Hash>(t: &T) -> u64 {
    let mut h = std::collections::hash_map::DefaultHasher::new();
    t.hash(&mut h);
    h.finish()
}
fn ord(o: Ordering) -> &'static str { match o { Ordering::Less => "lt", Ordering::Equal => "eq", Ordering::Greater => "gt" } }

/// `Afi` serialises as its name but deserialises from its number (serde(from = "u16"))
fn fix_afi(mut v: serde_json::Value) -> serde_json::Value {
    fn go(v: &mut serde_json::Value) {
        match v {
            serde_json::Value::Array(a) => a.iter_mut().for_each(go),
            serde_json::Value::Object(o) => {
                if let Some(a) = o.get_mut("afi") {
                    let n = match a.as_str() { Some("Ipv4") => Some(1), Some("Ipv6") => Some(2), Some("L2Vpn") => Some(25), _ => None };
                    if let Some(n) = n { *a = serde_json::Value::from(n); }
                }
            }
            _ => {}
        }
    }
    go(&mut v);
    v
}

/// partial_cmp, the four comparison operators and == of the NLRI proper agree with its cmp
fn inner_ok<T: Ord + PartialOrd + PartialEq>(a: &T, b: &T) -> bool {
    let c = a.cmp(b);
    #[allow(clippy::nonminimal_bool)]
    let ok = a.partial_cmp(b) == Some(c) && b.partial_cmp(a) == Some(c.reverse())
        && (a == b) == (c == Ordering::Equal) && (a != b) == (c != Ordering::Equal)
        && (a < b) == (c == Ordering::Less) && (a >= b) == (c != Ordering::Less);
    ok
}

type Typed = fn(&Vec<u8>, &Vec<u8>) -> Option<String>;
/// two or three values of one variant, each given as the JSON serde builds it from
type Built = fn(&[String]) -> String;

macro_rules! built {
    ([$($owned:tt)+]) => {
        |js: &[String]| -> String {
            let vs: Vec<$($owned)+> = js.iter().map(|j| serde_json::from_str(j).expect("serde build")).collect();
            let es: Vec<Nlri<Vec<u8>>> = vs.iter().map(|v| Nlri::<Vec<u8>>::from(v.clone())).collect();
            if vs.len() == 2 {
                let (x, y) = (&vs[0], &vs[1]);
                let eq = x == y;
                let c = x.cmp(y);
                let r = y.cmp(x);
                let hs = h64(x) == h64(y);
                #[allow(clippy::nonminimal_bool)]
                let pc = x.partial_cmp(y) == Some(c) && y.partial_cmp(x) == Some(r) && (x != y) == !eq && (y == x) == eq
                    && (x < y) == (c == Ordering::Less) && (x <= y) == (c != Ordering::Greater)
                    && (x > y) == (c == Ordering::Greater) && (x >= y) == (c != Ordering::Less)
                    // the NLRI proper (AfiSafiNlri::nlri(): MplsNlri, MplsVpnNlri, RouteTargetNlri, FlowSpecNlri, EvpnNlri,
                    // VplsNlri, Prefix): its own partial_cmp / == against its own cmp (tie coverage: the hand-written
                    // partial_cmp of these types is reached through no other operator)
                    && inner_ok(x.nlri(), y.nlri())
                    // the same two values inside the enum
                    && (es[0] == es[1]) == eq && es[0].cmp(&es[1]) == c && es[1].cmp(&es[0]) == r
                    && es[0].partial_cmp(&es[1]) == Some(c) && (h64(&es[0]) == h64(&es[1])) == hs;
                format!("eq={} cmp={} rev={} hash={} pcmp={}", eq, ord(c), ord(r), if hs { "same" } else { "diff" }, if pc { "ok" } else { "BAD" })
            } else {
                let (a, b, c) = (&vs[0], &vs[1], &vs[2]);
                let t = format!("ab={} bc={} ac={} eqab={} eqbc={} eqac={}", ord(a.cmp(b)), ord(b.cmp(c)), ord(a.cmp(c)), a == b, b == c, a == c);
                let e = format!("ab={} bc={} ac={} eqab={} eqbc={} eqac={}", ord(es[0].cmp(&es[1])), ord(es[1].cmp(&es[2])), ord(es[0].cmp(&es[2])),
                    es[0] == es[1], es[1] == es[2], es[0] == es[2]);
                if t == e { t } else { format!("{} ENUM-BAD", t) }
            }
        }
    };
}

macro_rules! typed {
    ([$($t:tt)+], [$($owned:tt)+]) => {
        |a: &Vec<u8>, b: &Vec<u8>| -> Option<String> {
            let x = $($t)+::parse(&mut Parser::from_ref(a)).ok()?;
            let y = $($t)+::parse(&mut Parser::from_ref(b)).ok()?;
            let eq = x == y;
            let c = x.cmp(&y);
            let r = y.cmp(&x);
            #[allow(clippy::nonminimal_bool)]
            let pc = x.partial_cmp(&y) == Some(c) && y.partial_cmp(&x) == Some(r) && (x != y) == !eq && (y == x) == eq
                && (x < y) == (c == Ordering::Less) && (x <= y) == (c != Ordering::Greater)
                && (x > y) == (c == Ordering::Greater) && (x >= y) == (c != Ordering::Less)
                && inner_ok(x.nlri(), y.nlri());
            let hs = h64(&x) == h64(&y);
            // the same bytes held in other buffer types
            let ab = bytes::Bytes::copy_from_slice(a);
            let bb = bytes::Bytes::copy_from_slice(b);
            let xb = $($t)+::parse(&mut Parser::from_ref(&ab)).ok()?;
            let yb = $($t)+::parse(&mut Parser::from_ref(&bb)).ok()?;
            let xv: $($owned)+ = serde_json::from_value(fix_afi(serde_json::to_value(&x).unwrap())).unwrap();
            let yv: $($owned)+ = serde_json::from_value(fix_afi(serde_json::to_value(&y).unwrap())).unwrap();
            let xbuf = x == xb && xb == x && x == xv && xv == xb && y == yb && y == yv
                && (xb == yb) == eq && (xv == yv) == eq && (x == yb) == eq && (xv == y) == eq
                && xb.cmp(&yb) == c && xv.cmp(&yv) == c
                && h64(&xb) == h64(&x) && h64(&xv) == h64(&x) && h64(&yb) == h64(&y);
            Some(format!("eq={} cmp={} rev={} hash={} pcmp={} xbuf={}", eq, ord(c), ord(r),
                if hs { "same" } else { "diff" }, if pc { "ok" } else { "BAD" }, if xbuf { "ok" } else { "BAD" }))
        }
    };
}
// (variant name, NlriType, typed comparison)
static TABLE: &[(&str, NlriType, Typed, Built)] = &[
    ("Ipv4Unicast", NlriType::Ipv4Unicast, typed!([Ipv4UnicastNlri], [Ipv4UnicastNlri]) as Typed, built!([Ipv4UnicastNlri]) as Built),
    ("Ipv4UnicastAddpath", NlriType::Ipv4UnicastAddpath, typed!([Ipv4UnicastAddpathNlri], [Ipv4UnicastAddpathNlri]) as Typed, built!([Ipv4UnicastAddpathNlri]) as Built),
    ("Ipv4Multicast", NlriType::Ipv4Multicast, typed!([Ipv4MulticastNlri], [Ipv4MulticastNlri]) as Typed, built!([Ipv4MulticastNlri]) as Built),
    ("Ipv4MulticastAddpath", NlriType::Ipv4MulticastAddpath, typed!([Ipv4MulticastAddpathNlri], [Ipv4MulticastAddpathNlri]) as Typed, built!([Ipv4MulticastAddpathNlri]) as Built),
    ("Ipv4MplsUnicast", NlriType::Ipv4MplsUnicast, typed!([Ipv4MplsUnicastNlri], [Ipv4MplsUnicastNlri<Vec<u8>>]) as Typed, built!([Ipv4MplsUnicastNlri<Vec<u8>>]) as Built),
    ("Ipv4MplsUnicastAddpath", NlriType::Ipv4MplsUnicastAddpath, typed!([Ipv4MplsUnicastAddpathNlri], [Ipv4MplsUnicastAddpathNlri<Vec<u8>>]) as Typed, built!([Ipv4MplsUnicastAddpathNlri<Vec<u8>>]) as Built),
    ("Ipv4MplsVpnUnicast", NlriType::Ipv4MplsVpnUnicast, typed!([Ipv4MplsVpnUnicastNlri], [Ipv4MplsVpnUnicastNlri<Vec<u8>>]) as Typed, built!([Ipv4MplsVpnUnicastNlri<Vec<u8>>]) as Built),
    ("Ipv4MplsVpnUnicastAddpath", NlriType::Ipv4MplsVpnUnicastAddpath, typed!([Ipv4MplsVpnUnicastAddpathNlri], [Ipv4MplsVpnUnicastAddpathNlri<Vec<u8>>]) as Typed, built!([Ipv4MplsVpnUnicastAddpathNlri<Vec<u8>>]) as Built),
    ("Ipv4RouteTarget", NlriType::Ipv4RouteTarget, typed!([Ipv4RouteTargetNlri], [Ipv4RouteTargetNlri<Vec<u8>>]) as Typed, built!([Ipv4RouteTargetNlri<Vec<u8>>]) as Built),
    ("Ipv4RouteTargetAddpath", NlriType::Ipv4RouteTargetAddpath, typed!([Ipv4RouteTargetAddpathNlri], [Ipv4RouteTargetAddpathNlri<Vec<u8>>]) as Typed, built!([Ipv4RouteTargetAddpathNlri<Vec<u8>>]) as Built),
    ("Ipv4FlowSpec", NlriType::Ipv4FlowSpec, typed!([Ipv4FlowSpecNlri], [Ipv4FlowSpecNlri<Vec<u8>>]) as Typed, built!([Ipv4FlowSpecNlri<Vec<u8>>]) as Built),
    ("Ipv4FlowSpecAddpath", NlriType::Ipv4FlowSpecAddpath, typed!([Ipv4FlowSpecAddpathNlri], [Ipv4FlowSpecAddpathNlri<Vec<u8>>]) as Typed, built!([Ipv4FlowSpecAddpathNlri<Vec<u8>>]) as Built),
    ("Ipv6Unicast", NlriType::Ipv6Unicast, typed!([Ipv6UnicastNlri], [Ipv6UnicastNlri]) as Typed, built!([Ipv6UnicastNlri]) as Built),
    ("Ipv6UnicastAddpath", NlriType::Ipv6UnicastAddpath, typed!([Ipv6UnicastAddpathNlri], [Ipv6UnicastAddpathNlri]) as Typed, built!([Ipv6UnicastAddpathNlri]) as Built),
    ("Ipv6Multicast", NlriType::Ipv6Multicast, typed!([Ipv6MulticastNlri], [Ipv6MulticastNlri]) as Typed, built!([Ipv6MulticastNlri]) as Built),
    ("Ipv6MulticastAddpath", NlriType::Ipv6MulticastAddpath, typed!([Ipv6MulticastAddpathNlri], [Ipv6MulticastAddpathNlri]) as Typed, built!([Ipv6MulticastAddpathNlri]) as Built),
    ("Ipv6MplsUnicast", NlriType::Ipv6MplsUnicast, typed!([Ipv6MplsUnicastNlri], [Ipv6MplsUnicastNlri<Vec<u8>>]) as Typed, built!([Ipv6MplsUnicastNlri<Vec<u8>>]) as Built),
    ("Ipv6MplsUnicastAddpath", NlriType::Ipv6MplsUnicastAddpath, typed!([Ipv6MplsUnicastAddpathNlri], [Ipv6MplsUnicastAddpathNlri<Vec<u8>>]) as Typed, built!([Ipv6MplsUnicastAddpathNlri<Vec<u8>>]) as Built),
    ("Ipv6MplsVpnUnicast", NlriType::Ipv6MplsVpnUnicast, typed!([Ipv6MplsVpnUnicastNlri], [Ipv6MplsVpnUnicastNlri<Vec<u8>>]) as Typed, built!([Ipv6MplsVpnUnicastNlri<Vec<u8>>]) as Built),
    ("Ipv6MplsVpnUnicastAddpath", NlriType::Ipv6MplsVpnUnicastAddpath, typed!([Ipv6MplsVpnUnicastAddpathNlri], [Ipv6MplsVpnUnicastAddpathNlri<Vec<u8>>]) as Typed, built!([Ipv6MplsVpnUnicastAddpathNlri<Vec<u8>>]) as Built),
    ("Ipv6FlowSpec", NlriType::Ipv6FlowSpec, typed!([Ipv6FlowSpecNlri], [Ipv6FlowSpecNlri<Vec<u8>>]) as Typed, built!([Ipv6FlowSpecNlri<Vec<u8>>]) as Built),
    ("Ipv6FlowSpecAddpath", NlriType::Ipv6FlowSpecAddpath, typed!([Ipv6FlowSpecAddpathNlri], [Ipv6FlowSpecAddpathNlri<Vec<u8>>]) as Typed, built!([Ipv6FlowSpecAddpathNlri<Vec<u8>>]) as Built),
    ("L2VpnVpls", NlriType::L2VpnVpls, typed!([L2VpnVplsNlri], [L2VpnVplsNlri]) as Typed, built!([L2VpnVplsNlri]) as Built),
    ("L2VpnVplsAddpath", NlriType::L2VpnVplsAddpath, typed!([L2VpnVplsAddpathNlri], [L2VpnVplsAddpathNlri]) as Typed, built!([L2VpnVplsAddpathNlri]) as Built),
    ("L2VpnEvpn", NlriType::L2VpnEvpn, typed!([L2VpnEvpnNlri], [L2VpnEvpnNlri<Vec<u8>>]) as Typed, built!([L2VpnEvpnNlri<Vec<u8>>]) as Built),
    ("L2VpnEvpnAddpath", NlriType::L2VpnEvpnAddpath, typed!([L2VpnEvpnAddpathNlri], [L2VpnEvpnAddpathNlri<Vec<u8>>]) as Typed, built!([L2VpnEvpnAddpathNlri<Vec<u8>>]) as Built),
];

fn lookup(name: &str) -> Option<&'static (&'static str, NlriType, Typed, Built)> { TABLE.iter().find(|r| r.0 == name) }

fn any<'a>(ty: NlriType, raw: &'a Vec<u8>) -> Option<Nlri<&'a [u8]>> {
    NlriEnumIter::new(Parser::from_ref(raw), ty).next()?.ok()
}

fn pair(a: &Nlri<&[u8]>, b: &Nlri<&[u8]>) -> String {
    let c = a.cmp(b);
    let ok = a.partial_cmp(b) == Some(c) && (a != b) == !(a == b);
    format!("eq={} cmp={} rev={} hash={}{}", a == b, ord(c), ord(b.cmp(a)),
        if h64(a) == h64(b) { "same" } else { "diff" }, if ok { "" } else { " PCMP-BAD" })
}
fn triple(a: &Nlri<&[u8]>, b: &Nlri<&[u8]>, c: &Nlri<&[u8]>) -> String {
    format!("ab={} bc={} ac={} eqab={} eqbc={} eqac={}", ord(a.cmp(b)), ord(b.cmp(c)), ord(a.cmp(c)), a == b, b == c, a == c)
}

//------------ generators ---------------------------------------------------------

fn clear_host(plen: u64, a: &mut [u8]) {
    for i in 0..a.len() {
        let lo = 8 * i as u64;
        if plen >= lo + 8 { continue; }
        let keep = plen.saturating_sub(lo);
        a[i] &= if keep == 0 { 0 } else { !(0xffu8 >> keep) };
    }
}

/// a well-formed value related to `v`: equal, or differing in exactly one respect
fn perturb(rng: &mut Rng, var: &Var, v: &Val) -> Val {
    let mut w = v.clone();
    let maxlen: u64 = if var.v6 { 128 } else { 32 };
    let what = rng.below(6);
    if what == 0 { return w; }
    if var.ap && what == 1 {
        w.pid = Some(match rng.below(4) { 0 => 0, 1 => u32::MAX as u64, 2 => (v.pid.unwrap() + 1) & 0xffff_ffff, _ => rng.u32() as u64 });
        return w;
    }
    let pfx = |rng: &mut Rng, w: &mut Val, room: u64| {
        match rng.below(5) {
            0 => { if w.plen > 0 { w.plen = rng.below(w.plen); clear_host(w.plen, &mut w.addr); } } // less specific, covering
            1 => { let l = (w.plen + 1 + rng.below(8)).min(maxlen).min(room); if l > w.plen { // more specific, covered
                    let extra = gen_addr(rng, var.v6, l, 9);
                    for i in 0..w.addr.len() { for bit in 0..8 { let pos = 8 * i as u64 + bit;
                        if pos >= w.plen && pos < l { w.addr[i] |= extra[i] & (0x80 >> bit); } } }
                    w.plen = l; } }
            2 => { if w.plen > 0 { let i = rng.below(w.plen) as usize; w.addr[i / 8] ^= 0x80 >> (i % 8); } } // one bit inside
            3 => { if w.plen > 0 { let i = (w.plen - 1) as usize; w.addr[i / 8] ^= 0x80 >> (i % 8); } } // last significant bit
            _ => { w.plen = rng.edgy(maxlen.min(room)); w.addr = gen_addr(rng, var.v6, w.plen, 9); }
        }
    };
    match var.shape {
        Shape::Pfx => pfx(rng, &mut w, 255),
        Shape::Mpls | Shape::Vpn => {
            let fixed = if var.shape == Shape::Vpn { 64 } else { 0 };
            match rng.below(if var.shape == Shape::Vpn { 3 } else { 2 }) {
                0 => { let room = 255 - fixed - 8 * w.labels.len() as u64; pfx(rng, &mut w, room); }
                1 => {
                    let maxd = ((255 - fixed - w.plen) / 24).min(8) as usize;
                    if maxd >= 1 {
                        w.labels = match rng.below(4) {
                            0 => vec![0x80, 0, 0], 1 => vec![0, 0, 0],
                            2 => { let mut l = w.labels.clone(); let k = l.len(); if k >= 3 { l[k - 3] ^= 0x10; }
                                   if l == [0x80, 0, 0] || l == [0, 0, 0] || (k == 3 && l[2] & 1 == 0) { gen_labels(rng, 1) } else { l } }
                            _ => { let d = 1 + rng.below(maxd as u64) as usize; gen_labels(rng, d) }
                        };
                    }
                }
                _ => { let i = rng.usize(0, 7); w.rd[i] ^= 1 << rng.below(8); }
            }
        }
        Shape::Rt | Shape::Evpn => {
            if var.shape == Shape::Evpn && rng.chance(1, 3) { w.t = *rng.pick(&[0u64, 1, 2, 3, 4, 5, 6, 7, 255]); }
            else { match rng.below(3) {
                0 => { if !w.raw.is_empty() { let i = rng.usize(0, w.raw.len() - 1); w.raw[i] ^= 1 << rng.below(8); } }
                1 => { if w.raw.len() < 31 { w.raw.push(rng.u8()); if var.shape == Shape::Rt && w.raw.len() < 4 { w.raw.extend(rng.bytes(4 - w.raw.len())); } } }
                _ => { let mut k = rng.usize(0, w.raw.len()); if var.shape == Shape::Rt && k < 4 { k = 0; } w.raw.truncate(k); }
            } }
        }
        Shape::Fs => {
            if var.v6 { match rng.below(3) {
                0 => { if !w.raw.is_empty() { let i = rng.usize(0, w.raw.len() - 1); w.raw[i] ^= 1 << rng.below(8); } }
                1 => { w.raw.push(rng.u8()); }
                _ => { let k = rng.usize(0, w.raw.len()); w.raw.truncate(k); }
            } } else {
                let n = 2 + rng.below(30) as usize;
                w.raw = gen_fs_components(rng, n);
            }
        }
        Shape::Vpls => match rng.below(5) {
            0 => { let i = rng.usize(0, 7); w.rd[i] ^= 1 << rng.below(8); }
            1 => w.ve[0] = rng.edgy(65535),
            2 => w.ve[1] = rng.edgy(65535),
            3 => w.ve[2] = rng.edgy(65535),
            _ => w.lb = rng.edgy((1 << 24) - 1),
        },
    }
    if ref_wf(var.shape, var.v6, &w) { w } else { v.clone() }
}

fn small_val(rng: &mut Rng, var: &Var) -> Val {
    let mut v = gen_val(rng, var);
    if var.shape == Shape::Fs && v.raw.len() > 64 { v.raw = if var.v6 { rng.bytes(9) } else { gen_fs_components(rng, 9) }; }
    v
}
fn enc(var: &Var, v: &Val) -> String { hex(&ref_enc(var.shape, v)) }

impl Prop for C14 {
    fn gen(&self, rng: &mut Rng, tier: Tier) -> Vec<String> {
        let mut out = Vec::new();
        let scale = if tier == Tier::Thorough { 100 } else { 1 };
        let vars: Vec<&Var> = VARIANTS.iter().flatten().collect();
        // the order of prefixes, systematically: nested / sibling / adjacent prefixes at every length
        for var in [vars[0], vars[12]] {
            let maxlen: u64 = if var.v6 { 128 } else { 32 };
            for l1 in 0..=maxlen {
                for _ in 0..(if var.v6 { 3 } else { 8 }) {
                    let pat = 4 + rng.below(2);
                    let a = Val { plen: l1, addr: gen_addr(rng, var.v6, l1, pat), ..Default::default() };
                    let b = perturb(rng, var, &a);
                    let c = perturb(rng, var, &b);
                    out.push(format!("cmp {} {} {}", var.name, enc(var, &a), enc(var, &b)));
                    out.push(format!("tri {} {} {} {}", var.name, enc(var, &a), enc(var, &b), enc(var, &c)));
                }
            }
        }
        // pairs that differ in exactly ONE octet of the encoding, at every offset (all families): whatever field the octet
        // belongs to - a label behind an EVPN route key, a reserved bit, the last octet of a route distinguisher - `==`,
        // `cmp == Equal` and equal hashes must go together (round-6 seed: EVPN `==` / `cmp` on the RFC 7432 route key,
        // derived `Hash` on all octets)
        for var in &vars {
            let mut encs: Vec<Vec<u8>> = (0..3).map(|_| ref_enc(var.shape, &small_val(rng, var))).collect();
            if var.name.starts_with("L2VpnEvpn") {
                let pid: Vec<u8> = if var.name.contains("Addpath") { vec![0, 0, 0, 7] } else { vec![] };
                let rd_esi_tag = |rng: &mut Rng| { let mut b = vec![0u8, 1]; b.extend(rng.bytes(6)); b.extend(rng.bytes(10)); b.extend(rng.bytes(4)); b };
                // route type 1 (Ethernet A-D): RD, ESI, tag, one label = 25 octets
                let mut b1 = rd_esi_tag(rng); b1.extend([0x00, 0x06, 0x41]);
                // route type 2 (MAC/IP): RD, ESI, tag, MAC length 48 + MAC, IP length 0 / 32 / 128 + IP, one or two labels
                for iplen in [0usize, 4, 16] { for labels in [1usize, 2] {
                    let mut b2 = rd_esi_tag(rng); b2.push(48); b2.extend(rng.bytes(6)); b2.push((iplen * 8) as u8); b2.extend(rng.bytes(iplen));
                    for _ in 0..labels { b2.extend([0x00, 0x07, 0xd1]); }
                    let mut e = pid.clone(); e.push(2); e.push(b2.len() as u8); e.extend(b2); encs.push(e);
                } }
                let mut e = pid.clone(); e.push(1); e.push(b1.len() as u8); e.extend(b1); encs.push(e);
            }
            for e in &encs {
                for i in 0..e.len().min(96) { for m in [1u8, 0x80] {
                    let mut f = e.clone(); f[i] ^= m;
                    out.push(format!("cmp {} {} {}", var.name, hex(e), hex(&f)));
                } }
            }
        }
        for var in &vars {
            for _ in 0..(160 * scale) {
                let a = small_val(rng, var);
                let b = perturb(rng, var, &a);
                out.push(format!("cmp {} {} {}", var.name, enc(var, &a), enc(var, &b)));
            }
            for _ in 0..(120 * scale) {
                let a = small_val(rng, var);
                let b = perturb(rng, var, &a);
                let c = if rng.bool() { perturb(rng, var, &b) } else { perturb(rng, var, &a) };
                let mut t = [a, b, c];
                if rng.bool() { t.swap(0, 2); }
                if rng.bool() { t.swap(1, 2); }
                out.push(format!("tri {} {} {} {}", var.name, enc(var, &t[0]), enc(var, &t[1]), enc(var, &t[2])));
            }
            // raw-octet shapes (route target, EVPN, FlowSpec): triples of values of DIFFERENT lengths that share
            // leading octets – two "complete" values differing in one early and one late octet in opposite
            // directions, and a shorter one cut from between them. An ordering that switches keys with the
            // length of a value (e.g. structured fields for complete values, raw octets otherwise) shows up
            // as a cycle only on such mixed triples.
            if matches!(var.shape, Shape::Rt | Shape::Evpn | Shape::Fs) && !(var.shape == Shape::Fs && !var.v6) {
                for _ in 0..(60 * scale) {
                    let full = if var.shape == Shape::Rt { 12 } else { rng.usize(6, 14) };
                    let base = rng.bytes(full);
                    let (mut a, mut b) = (small_val(rng, var), small_val(rng, var));
                    let i = rng.usize(0, 3.min(full - 2));
                    let j = rng.usize(full / 2, full - 1);
                    let (mut ra, mut rb) = (base.clone(), base.clone());
                    ra[i] = ra[i] & 0xfe; rb[i] = ra[i] | 1;            // a < b on the early octet
                    ra[j] = ra[j] | 0x10; rb[j] = ra[j] & 0xef;         // a > b on the late octet
                    a.raw = ra.clone(); b.raw = rb.clone();
                    let mut c = small_val(rng, var);
                    // (route targets: 4..=12 octets are the lengths RFC 4684 defines; shorter ones go through `vtri`)
                    let cut = rng.usize(if var.shape == Shape::Rt { 4.max(i + 1) } else { i + 1 }, full - 1);
                    let mut rc = ra[..cut].to_vec();
                    if rng.bool() { rc.push(0xff); } else if rng.bool() { rc.push(0x00); }
                    c.raw = rc;
                    c.pid = a.pid; b.pid = a.pid;
                    if var.shape == Shape::Evpn { b.t = a.t; c.t = a.t; }
                    let mut t = [a, b, c];
                    if rng.bool() { t.swap(0, 2); }
                    if rng.bool() { t.swap(1, 2); }
                    out.push(format!("tri {} {} {} {}", var.name, enc(var, &t[0]), enc(var, &t[1]), enc(var, &t[2])));
                }
            }
            // a few inputs that do not parse
            out.push(format!("cmp {} {} {}", var.name, hex(&rng.bytes(2)), enc(var, &small_val(rng, var))));
        }
        // through the enum, mixing variants (same family plain / ADD-PATH, same shape, unrelated)
        let mix = |rng: &mut Rng, v: &Var| -> &'static Var {
            let i = VARIANTS.iter().position(|f| f[0].name == v.name || f[1].name == v.name).unwrap();
            match rng.below(4) {
                0 => &VARIANTS[i][rng.below(2) as usize],
                1 => VARIANTS.iter().flatten().filter(|w| w.shape == v.shape && w.v6 == v.v6).nth(rng.below(2) as usize).unwrap_or(&VARIANTS[i][0]),
                _ => &VARIANTS[rng.below(13) as usize][rng.below(2) as usize],
            }
        };
        for _ in 0..(2500 * scale) {
            let va = *rng.pick(&vars);
            let a = small_val(rng, va);
            let vb = mix(rng, va);
            let b = if vb.name == va.name { perturb(rng, va, &a) } else {
                // carry the payload over when the shapes agree (same NLRI, other variant)
                let mut b = small_val(rng, vb);
                if vb.shape == va.shape && vb.v6 == va.v6 && rng.bool() { let pid = b.pid; b = a.clone(); b.pid = if vb.ap { pid.or(Some(1)) } else { None }; }
                b
            };
            out.push(format!("any {} {} {} {}", va.name, enc(va, &a), vb.name, enc(vb, &b)));
        }
        for _ in 0..(2000 * scale) {
            let va = *rng.pick(&vars);
            let a = small_val(rng, va);
            let vb = mix(rng, va);
            let b = if vb.name == va.name { perturb(rng, va, &a) } else { small_val(rng, vb) };
            let vc = if rng.bool() { mix(rng, va) } else { mix(rng, vb) };
            let c = if vc.name == va.name { perturb(rng, va, &a) } else if vc.name == vb.name { perturb(rng, vb, &b) } else { small_val(rng, vc) };
            out.push(format!("anytri {} {} {} {} {} {}", va.name, enc(va, &a), vb.name, enc(vb, &b), vc.name, enc(vc, &c)));
        }
        // values built through serde, in particular those no parser returns
        for var in &vars {
            let odd = |rng: &mut Rng, v: &mut Val| {
                match var.shape {
                    // label octets that are not a whole number of labels / do not stop where the parser would
                    Shape::Mpls | Shape::Vpn => { let n = *rng.pick(&[0usize, 1, 2, 4, 5, 7, 33]); v.labels = rng.bytes(n); }
                    // an afi that is not the family's
                    Shape::Fs => { v.afi = *rng.pick(&[1u64, 2, 25, 0, 3, 65535]); if v.raw.len() > 24 { v.raw.truncate(24); } }
                    // Unimplemented(1..=5) next to the named variants
                    Shape::Evpn => { v.t = *rng.pick(&[1u64, 2, 5, 257, 258, 261, 0, 6, 255]); if v.raw.len() > 24 { v.raw.truncate(24); } }
                    // route targets of lengths RFC 4684 does not define
                    Shape::Rt => { let n = *rng.pick(&[1usize, 2, 3, 13, 31, 32, 40]); v.raw = rng.bytes(n); }
                    _ => {}
                }
            };
            let n = if matches!(var.shape, Shape::Pfx | Shape::Vpls) { 10 } else { 60 };
            for k in 0..(n * scale) {
                let mut a = small_val(rng, var);
                if var.shape == Shape::Fs && a.raw.len() > 24 { a.raw = if var.v6 { rng.bytes(9) } else { gen_fs_components(rng, 9) }; }
                odd(rng, &mut a);
                // b: equal, or differing in the odd field only, or in something else
                let mut b = a.clone();
                match rng.below(4) { 0 => {}, 1 | 2 => odd(rng, &mut b), _ => { let sv = small_val(rng, var); b = perturb(rng, var, &sv); odd(rng, &mut b); } }
                if var.shape == Shape::Fs || var.shape == Shape::Evpn { if rng.chance(1, 3) { b.raw = a.raw.clone(); } }
                if !buildable(var.shape, var.v6, &a) || !buildable(var.shape, var.v6, &b) { continue; }
                if k % 3 != 0 {
                    out.push(format!("vcmp {} {} / {}", var.name, show(var.shape, &a), show(var.shape, &b)));
                } else {
                    let mut c = if rng.bool() { a.clone() } else { b.clone() };
                    odd(rng, &mut c);
                    if rng.bool() && !c.raw.is_empty() { let i = rng.usize(0, c.raw.len() - 1); c.raw[i] ^= 1 << rng.below(8); }
                    if var.ap && rng.chance(1, 3) { c.pid = Some(rng.below(3)); }
                    if !buildable(var.shape, var.v6, &c) { continue; }
                    let mut t = [a, b, c];
                    if rng.bool() { t.swap(0, 2); }
                    if rng.bool() { t.swap(1, 2); }
                    out.push(format!("vtri {} {} / {} / {}", var.name, show(var.shape, &t[0]), show(var.shape, &t[1]), show(var.shape, &t[2])));
                }
            }
        }
        out.push("vcmp Ipv4FlowSpec afi=1 raw=038106 / afi=2 raw=038106".into()); // F31
        out.push("vcmp Ipv4Unicast p=24/01020304 / p=24/01020300".into()); // not buildable
        out.push("vcmp Ipv4Unicast p=24/01020300".into());
        out.push("cmp Ipv4Unicast zz 00".into());
        out.push("any Ipv4Unicast 00 Ipv9Unicast 00".into());
        let _ = host_zero;
        out
    }

    fn exec(&self, line: &str) -> String {
        let w: Vec<&str> = line.split(' ').collect();
        let hexes = |hs: &[&str]| -> Option<Vec<Vec<u8>>> { hs.iter().map(|h| unhex_strict(h)).collect() };
        match w.as_slice() {
            ["cmp", v, a, b] => {
                let (Some(row), Some(raw)) = (lookup(v), hexes(&[a, b])) else { return "bad-op".into() };
                (row.2)(&raw[0], &raw[1]).unwrap_or_else(|| "err".into())
            }
            ["tri", v, a, b, c] => {
                let (Some(row), Some(raw)) = (lookup(v), hexes(&[a, b, c])) else { return "bad-op".into() };
                match (any(row.1, &raw[0]), any(row.1, &raw[1]), any(row.1, &raw[2])) {
                    (Some(x), Some(y), Some(z)) => triple(&x, &y, &z),
                    _ => "err".into(),
                }
            }
            ["any", va, a, vb, b] => {
                let (Some(ra), Some(rb), Some(raw)) = (lookup(va), lookup(vb), hexes(&[a, b])) else { return "bad-op".into() };
                match (any(ra.1, &raw[0]), any(rb.1, &raw[1])) {
                    (Some(x), Some(y)) => pair(&x, &y),
                    _ => "err".into(),
                }
            }
            ["anytri", va, a, vb, b, vc, c] => {
                let (Some(ra), Some(rb), Some(rc), Some(raw)) = (lookup(va), lookup(vb), lookup(vc), hexes(&[a, b, c])) else { return "bad-op".into() };
                match (any(ra.1, &raw[0]), any(rb.1, &raw[1]), any(rc.1, &raw[2])) {
                    (Some(x), Some(y), Some(z)) => triple(&x, &y, &z),
                    _ => "err".into(),
                }
            }
            [op @ ("vcmp" | "vtri"), v, rest @ ..] => {
                let (Some(row), Some(var)) = (lookup(v), variant(v)) else { return "bad-op".into() };
                let groups: Vec<&[&str]> = rest.split(|t| *t == "/").collect();
                if groups.len() != if *op == "vcmp" { 2 } else { 3 } { return "bad-op".into(); }
                let mut js = Vec::new();
                for g in groups {
                    match read(var.shape, var.ap, g) {
                        Some(val) if buildable(var.shape, var.v6, &val) => js.push(to_json(var.shape, &val)),
                        _ => return "bad-op".into(),
                    }
                }
                (row.3)(&js)
            }
            _ => "bad-op".into(),
        }
    }

    fn oracle(&self, line: &str, reply: &str) -> Result<(), String> {
        if reply == "bad-op" { return Ok(()); }
        let w: Vec<&str> = line.split(' ').collect();
        if reply == "panic" {
            // `vcmp` / `vtri` run nothing but Deserialize, ==, cmp, partial_cmp and Hash; in the other ops a panic
            // of the PARSER on the request's bytes is C02's subject, a panic after both parsed is ours
            if w[0] == "vcmp" || w[0] == "vtri" { return Err("==, cmp or Hash panicked: the ordering is not total".into()); }
            let args: Vec<(&str, &str)> = match w.as_slice() {
                ["cmp", v, a, b] => vec![(*v, *a), (*v, *b)],
                ["tri", v, a, b, c] => vec![(*v, *a), (*v, *b), (*v, *c)],
                ["any", va, a, vb, b] => vec![(*va, *a), (*vb, *b)],
                ["anytri", va, a, vb, b, vc, c] => vec![(*va, *a), (*vb, *b), (*vc, *c)],
                _ => vec![],
            };
            for (v, h) in args {
                if let (Some(row), Some(raw)) = (lookup(v), unhex_strict(h)) {
                    if catch(|| { let _ = any(row.1, &raw); "ok".to_string() }) == "panic" { return Ok(()); }
                }
            }
            return Err("every NLRI parsed but ==, cmp or Hash panicked: the ordering is not total".into());
        }
        if reply == "err" { return Ok(()); }
        let kvs: std::collections::HashMap<&str, &str> = reply.split(' ').filter_map(|t| t.split_once('=')).collect();
        let get = |k: &str| -> Result<&str, String> { kvs.get(k).copied().ok_or(format!("reply lacks {}", k)) };
        let swap = |o: &str| match o { "lt" => "gt", "gt" => "lt", _ => "eq" };
        let le = |o: &str| o != "gt";
        if reply.contains("BAD") { return Err(format!("partial_cmp / comparison operators / other buffer types disagree with cmp and ==: {}", reply)); }
        // canonical encodings of well-formed values are equal exactly when the values are
        // (judged by the harness's own decoder/encoder, never by routecore: the hex is exactly the reference
        // encoding of the well-formed value the reference decoder reads from it)
        let is_canon = |v: &str, h: &str| -> bool {
            let (Some(var), Some(raw)) = (variant(v), unhex_strict(h)) else { return false };
            matches!(ref_dec(var.shape, var.v6, var.ap, &raw), Some((val, n)) if n == raw.len() && ref_wf(var.shape, var.v6, &val) && ref_enc(var.shape, &val) == raw)
        };
        // a value given as tokens in the canonical spelling (what `show` prints)
        let canon_toks = |v: &str, g: &[&str]| -> bool {
            variant(v).and_then(|var| read(var.shape, var.ap, g).map(|val| show(var.shape, &val) == g.join(" "))).unwrap_or(false)
        };
        match w.as_slice() {
            ["cmp", v, a, b] | ["any", v, a, _, b] => {
                let same_variant = w[0] == "cmp" || w[1] == w[3];
                let (eq, c, r, hs) = (get("eq")? == "true", get("cmp")?, get("rev")?, get("hash")? == "same");
                if (c == "eq") != eq { return Err(format!("cmp is {} but == is {}", c, eq)); }
                if r != swap(c) { return Err(format!("a.cmp(b) = {} but b.cmp(a) = {}", c, r)); }
                if eq && !hs { return Err("== values hash differently".into()); }
                let vb = if w[0] == "cmp" { *v } else { w[3] };
                if is_canon(v, a) && is_canon(vb, b) {
                    let same = same_variant && a == b;
                    if eq != same { return Err(format!("== is {} for {} encodings{}", eq, if a == b { "identical" } else { "different" },
                        if same_variant { "" } else { " of different variants" })); }
                }
                Ok(())
            }
            ["vcmp", v, rest @ ..] => {
                let (eq, c, r, hs) = (get("eq")? == "true", get("cmp")?, get("rev")?, get("hash")? == "same");
                if (c == "eq") != eq { return Err(format!("cmp is {} but == is {}", c, eq)); }
                if r != swap(c) { return Err(format!("a.cmp(b) = {} but b.cmp(a) = {}", c, r)); }
                if eq && !hs { return Err("== values hash differently".into()); }
                let g: Vec<&[&str]> = rest.split(|t| *t == "/").collect();
                if g.len() == 2 && canon_toks(v, g[0]) && canon_toks(v, g[1]) {
                    // the tokens spell every field of the value: equal values <=> equal spellings
                    let same = g[0] == g[1];
                    if eq != same { return Err(format!("== is {} for values whose fields are {}", eq, if same { "identical" } else { "different" })); }
                }
                Ok(())
            }
            ["tri", ..] | ["anytri", ..] | ["vtri", ..] => {
                let (ab, bc, ac) = (get("ab")?, get("bc")?, get("ac")?);
                let (eab, ebc, eac) = (get("eqab")? == "true", get("eqbc")? == "true", get("eqac")? == "true");
                if le(ab) && le(bc) && !le(ac) { return Err(format!("not transitive: a<=b ({}) and b<=c ({}) but a>c", ab, bc)); }
                if !le(swap(ab)) && false { unreachable!() }
                if ab == "gt" && bc == "gt" && ac != "gt" { return Err(format!("not transitive: a>b and b>c but a.cmp(c) = {}", ac)); }
                if ab == "lt" && bc == "lt" && ac != "lt" { return Err(format!("not transitive: a<b and b<c but a.cmp(c) = {}", ac)); }
                if ab == "eq" && ac != bc { return Err(format!("a.cmp(b) = eq but a.cmp(c) = {} and b.cmp(c) = {}", ac, bc)); }
                if bc == "eq" && ab != ac { return Err(format!("b.cmp(c) = eq but a.cmp(b) = {} and a.cmp(c) = {}", ab, ac)); }
                if (ab == "eq") != eab || (bc == "eq") != ebc || (ac == "eq") != eac { return Err("cmp = Equal and == disagree".into()); }
                if eab && ebc && !eac { return Err("== is not transitive".into()); }
                Ok(())
            }
            _ => Ok(()),
        }
    }

    fn nontrivial(&self, _line: &str, reply: &str) -> bool { reply != "err" && reply != "bad-op" }

    fn class(&self, line: &str, reply: &str) -> String {
        let mut w = line.split(' ');
        let op = w.next().unwrap_or("");
        let v = w.next().unwrap_or("");
        let kind = if reply == "err" || reply == "bad-op" || reply == "panic" { reply.to_string() } else {
            let c = reply.split(' ').find_map(|t| t.strip_prefix("cmp=").or(t.strip_prefix("ab="))).unwrap_or("?");
            c.to_string()
        };
        if op == "cmp" || op == "tri" || op == "vcmp" || op == "vtri" { format!("{}:{}:{}", op, v, kind) } else { format!("{}:{}", op, kind) }
    }
}
