//! C17: attribute map (`PaMap`), `OwnedPathAttributes::get` and `RouteWorkshop`
//! store and return what was put in.
//!
//! Request lines are operation sequences:
//!   `pm <tok> <tok> ...`  on two maps A (operated on) and B (merge source)
//!   `ws <tok> <tok> ...`  on a route workshop
//! tokens (fields separated by `:`; values are wire value bytes in hex, `-` = empty):
//!   set:<code>:<val>            PaMap::set::<T> / RouteWorkshop::set_attr::<T>
//!   sfe:<spec>  add:<spec>      set_from_enum / add_attribute; spec = t:<code>:<val>
//!                               | u:<code>:<flags>:<val> | i:<code>:<flags>:<val>
//!   get:<code>  rm:<code>       get::<T> / remove::<T>
//!   rnt  sw  mg                 remove_non_transitives / swap A,B / A.merge_upsert(B)
//!   fu:<pdu> mu:<pdu> own:<pdu> A := from_update_pdu / A.merge_upsert(from_update_pdu) /
//!                               OwnedPathAttributes::get vs PaMap::get for all 20 kinds
//!   setc:<comms> getc           Vec<Community> (s/e/v/l + raw hex, comma separated)
//!   nh:<tag>:<raw>              set_nexthop
//!   wfu:c:<pdu> wfu:m:<pdu>     RouteWorkshop::from_update_pdu with the first conventional /
//!                               first MP_REACH announcement of the PDU
//! The tokens that take a PDU may carry a session suffix (`fu2:`, `owna:`, `wfu2a:m:` ...):
//!   `2` = two-octet session (`SessionConfig::legacy()`), `a` = ADD-PATH (rx + tx) for all 13
//!   families (path ids in the conventional sections and in MP_REACH / MP_UNREACH), none =
//!   `SessionConfig::modern()`.
//!   nh tags: 0 Unicast(v4) 1 Unicast(v6) 2 Ipv6LL 3 MplsVpnUnicast(rd, v4) 4 MplsVpnUnicast(rd, v6) 5 Empty
//! Replies: one token per request token; mutating ops append `|<state>` where
//! state = `code=<k><composed hex>;...#<bytes_len>` in map iteration order.
use crate::common::*;
use inetnum::addr::Prefix;
use octseq::Parser;
use routecore::bgp::aspath::HopPath;
use routecore::bgp::communities::{
    Community, ExtendedCommunity, Ipv6ExtendedCommunity, LargeCommunity, StandardCommunity,
};
use routecore::bgp::message::update_builder::StandardCommunitiesList;
use routecore::bgp::message::{PduParseInfo, SessionConfig, UpdateMessage};
use bytes::Bytes;
use crate::props::c05;
use routecore::bgp::nlri::afisafi::*;
use routecore::bgp::types::RouteDistinguisher;
use routecore::bgp::nlri::nexthop::NextHop;
use routecore::bgp::path_attributes::*;
use routecore::bgp::types::{
    As4Aggregator, As4Path, AtomicAggregate, Connector, ConventionalNextHop, LocalPref,
    MultiExitDisc, Origin, OriginatorId, Otc,
};
use routecore::bgp::workshop::route::RouteWorkshop;
use std::net::{IpAddr, Ipv4Addr, Ipv6Addr};

pub struct C17;

const TYPED: [u8; 20] = [1, 2, 3, 4, 5, 6, 7, 8, 9, 10, 16, 17, 18, 20, 21, 25, 32, 35, 128, 255];
const SCALAR: [u8; 13] = [1, 2, 4, 5, 7, 8, 9, 10, 16, 21, 25, 32, 35];
const UNIMPL_CODES: [u8; 12] = [0, 11, 12, 13, 19, 22, 23, 24, 26, 40, 127, 254];

macro_rules! by_code {
    ($code:expr, $T:ident => $body:expr, $else:expr) => {
        match $code {
            1 => { type $T = Origin; $body }
            2 => { type $T = HopPath; $body }
            3 => { type $T = ConventionalNextHop; $body }
            4 => { type $T = MultiExitDisc; $body }
            5 => { type $T = LocalPref; $body }
            6 => { type $T = AtomicAggregate; $body }
            7 => { type $T = AggregatorInfo; $body }
            8 => { type $T = StandardCommunitiesList; $body }
            9 => { type $T = OriginatorId; $body }
            10 => { type $T = ClusterIds; $body }
            16 => { type $T = ExtendedCommunitiesList; $body }
            17 => { type $T = As4Path; $body }
            18 => { type $T = As4Aggregator; $body }
            20 => { type $T = Connector; $body }
            21 => { type $T = AsPathLimitInfo; $body }
            25 => { type $T = Ipv6ExtendedCommunitiesList; $body }
            32 => { type $T = LargeCommunitiesList; $body }
            35 => { type $T = Otc; $body }
            128 => { type $T = AttributeSet; $body }
            255 => { type $T = ReservedRaw; $body }
            _ => $else,
        }
    };
}

macro_rules! by_scalar {
    ($code:expr, $T:ident => $body:expr, $else:expr) => {
        match $code {
            1 => { type $T = Origin; $body }
            2 => { type $T = HopPath; $body }
            4 => { type $T = MultiExitDisc; $body }
            5 => { type $T = LocalPref; $body }
            7 => { type $T = AggregatorInfo; $body }
            8 => { type $T = StandardCommunitiesList; $body }
            9 => { type $T = OriginatorId; $body }
            10 => { type $T = ClusterIds; $body }
            16 => { type $T = ExtendedCommunitiesList; $body }
            21 => { type $T = AsPathLimitInfo; $body }
            25 => { type $T = Ipv6ExtendedCommunitiesList; $body }
            32 => { type $T = LargeCommunitiesList; $body }
            35 => { type $T = Otc; $body }
            _ => $else,
        }
    };
}

/// a typed value from wire value bytes: the type's own `validate` then `parse`
fn mk<T: Attribute>(val: &Vec<u8>) -> Option<T> {
    let ppi = PduParseInfo::modern();
    let mut p = Parser::from_ref(val);
    T::validate(T::FLAGS.into(), &mut p, ppi).ok()?;
    let mut p = Parser::from_ref(val);
    T::parse(&mut p, ppi).ok()
}

fn show(pa: &PathAttribute) -> String {
    let k = match pa {
        PathAttribute::Unimplemented(_) => 'u',
        PathAttribute::Invalid(..) => 'i',
        _ => 't',
    };
    let mut v = Vec::new();
    pa.compose(&mut v).unwrap();
    format!("{}{}", k, hex(&v))
}

fn show_ret(r: Option<PathAttribute>) -> String {
    match r { Some(pa) => show(&pa), None => "-".into() }
}

fn show_map(m: &PaMap) -> String {
    let mut parts = Vec::new();
    for (k, pa) in m.attributes().iter() {
        parts.push(format!("{}={}", k, show(pa)));
    }
    match map_obs(m) {
        None => format!("{}#{}", parts.join(";"), m.bytes_len()),
        Some(why) => format!("{}#{}_OBS-BAD:{}", parts.join(";"), m.bytes_len(), why),
    }
}

/// (tie coverage) the other public views of the same map agree with `attributes()`: is_empty / len,
/// get_by_type_code / get_mut_by_type_code for all 256 codes, into_attributes
fn map_obs(m: &PaMap) -> Option<String> {
    if m.is_empty() != (m.len() == 0) || m.len() != m.attributes().len() { return Some("is_empty/len".into()); }
    let mut cl = m.clone();
    for c in 0..=255u8 {
        let want = m.attributes().get(&c);
        if m.get_by_type_code(c) != want { return Some(format!("get_by_type_code({})", c)); }
        if cl.get_mut_by_type_code(c).map(|x| &*x) != want { return Some(format!("get_mut_by_type_code({})", c)); }
    }
    if &m.clone().into_attributes() != m.attributes() { return Some("into_attributes".into()); }
    None
}

/// (tie coverage) the accessors of a workshop built from an UPDATE: nlri / into_nlri give back the NLRI it was
/// built for, into_route carries the NLRI and the attribute map, validate accepts exactly a workshop with a next hop
fn ws_obs<N: AfiSafiNlri + Clone + PartialEq>(r: &RouteWorkshop<N>, n: &N) -> Option<&'static str> {
    if r.nlri() != n { return Some("nlri()"); }
    if &r.clone().into_nlri() != n { return Some("into_nlri()"); }
    let route = r.clone().into_route();
    if route.nlri() != n || route.attributes() != r.attributes() { return Some("into_route()"); }
    if r.validate().is_ok() != r.nexthop().is_some() { return Some("validate()"); }
    // ... and a workshop that was never given a next hop is not valid (doc of RouteWorkshop::validate)
    let fresh = RouteWorkshop::new(n.clone());
    if fresh.nexthop().is_some() || fresh.validate().is_ok() || fresh.nlri() != n { return Some("new()/validate()"); }
    None
}

fn parse_spec(f: &[&str]) -> Option<PathAttribute> {
    match f {
        ["t", c, v] => {
            let c: u8 = c.parse().ok()?;
            let v = unhex(v)?;
            by_code!(c, T => mk::<T>(&v).map(PathAttribute::from), None)
        }
        ["u", c, fl, v] => {
            let c: u8 = c.parse().ok()?;
            let fl = unhex(fl)?;
            if fl.len() != 1 { return None; }
            Some(PathAttribute::Unimplemented(UnimplementedPathAttribute::new(fl[0].into(), c, unhex(v)?)))
        }
        ["i", c, fl, v] => {
            let c: u8 = c.parse().ok()?;
            let fl = unhex(fl)?;
            if fl.len() != 1 { return None; }
            Some(PathAttribute::Invalid(fl[0].into(), c, unhex(v)?))
        }
        _ => None,
    }
}

fn typed_code(s: &str) -> Option<u8> {
    let c: u8 = s.parse().ok()?;
    if s != c.to_string() { return None; }
    if TYPED.contains(&c) { Some(c) } else { None }
}

fn num(s: &str) -> Option<u8> {
    let c: u8 = s.parse().ok()?;
    if s != c.to_string() { None } else { Some(c) }
}

const ALL_FAMS: [(u16, u8); 13] = [(1, 1), (1, 2), (1, 4), (1, 128), (1, 132), (1, 133), (2, 1), (2, 2), (2, 4), (2, 128), (2, 133), (25, 65), (25, 70)];

/// `fu`, `fu2`, `fua`, `fu2a` -> (four-octet session?, ADD-PATH session?)
fn sess_of(base: &str, tok: &str) -> Option<(bool, bool)> {
    match tok.strip_prefix(base)? { "" => Some((true, false)), "2" => Some((false, false)), "a" => Some((true, true)), "2a" => Some((false, true)), _ => None }
}

pub(crate) fn session(four: bool, ap: bool) -> SessionConfig {
    let mut sc = if four { SessionConfig::modern() } else { SessionConfig::legacy() };
    if ap { for k in ALL_FAMS { sc.add_addpath_rxtx(AfiSafiType::from(k)); } }
    sc
}

fn parse_pdu(h: &str, four: bool, ap: bool) -> Option<Option<UpdateMessage<Bytes>>> {
    let raw = unhex(h)?;
    Some(UpdateMessage::from_octets(Bytes::from(raw), &session(four, ap)).ok())
}

fn pm_tok(a: &mut PaMap, b: &mut PaMap, tok: &str) -> Option<String> {
    let f: Vec<&str> = tok.split(':').collect();
    match f.as_slice() {
        ["set", c, v] => {
            let c = num(c)?;
            let v = unhex(v)?;
            let r = by_code!(c, T => {
                let x: T = mk::<T>(&v)?;
                a.set(x).map(PathAttribute::from)
            }, return None);
            Some(format!("S{}|{}", show_ret(r), show_map(a)))
        }
        ["sfe", spec @ ..] => {
            let pa = parse_spec(spec)?;
            let r = a.set_from_enum(pa);
            Some(format!("E{}|{}", show_ret(r), show_map(a)))
        }
        ["add", spec @ ..] => {
            let pa = parse_spec(spec)?;
            let r = a.add_attribute(pa).unwrap();
            Some(format!("A{}|{}", show_ret(r), show_map(a)))
        }
        ["get", c] => {
            let c = typed_code(c)?;
            let r = by_code!(c, T => a.get::<T>().map(PathAttribute::from), None);
            Some(format!("G{}", show_ret(r)))
        }
        ["rm", c] => {
            let c = typed_code(c)?;
            let r = by_code!(c, T => a.remove::<T>().map(PathAttribute::from), None);
            Some(format!("R{}|{}", show_ret(r), show_map(a)))
        }
        ["rnt"] => {
            a.remove_non_transitives();
            Some(format!("N|{}", show_map(a)))
        }
        ["sw"] => {
            std::mem::swap(a, b);
            Some(format!("W|{}", show_map(a)))
        }
        ["mg"] => {
            a.merge_upsert(b);
            Some(format!("M{}|{}", b.len(), show_map(a)))
        }
        [k, p] if sess_of("fu", k).is_some() => {
            let (four, ap) = sess_of("fu", k)?;
            match parse_pdu(p, four, ap)? {
                None => Some("Frej".into()),
                Some(pdu) => match PaMap::from_update_pdu(&pdu) {
                    Ok(m) => { *a = m; Some(format!("Fok|{}", show_map(a))) }
                    Err(_) => Some("Ferr".into()),
                },
            }
        }
        [k, p] if sess_of("mu", k).is_some() => {
            let (four, ap) = sess_of("mu", k)?;
            match parse_pdu(p, four, ap)? {
                None => Some("Urej".into()),
                Some(pdu) => match PaMap::from_update_pdu(&pdu) {
                    Ok(mut m) => { a.merge_upsert(&mut m); Some(format!("Uok|{}", show_map(a))) }
                    Err(_) => Some("Uerr".into()),
                },
            }
        }
        [k, p] if sess_of("own", k).is_some() => {
            let (four, ap) = sess_of("own", k)?;
            match parse_pdu(p, four, ap)? {
                None => Some("Orej".into()),
                Some(pdu) => {
                    let owned = OwnedPathAttributes::from(pdu.path_attributes().unwrap());
                    // (tie coverage) the other constructors / destructors of the owned form: new, From<(ppi, Vec)>,
                    // pdu_parse_info, into_vec (= the attribute section of the PDU, octet for octet)
                    {
                        let ppi = owned.pdu_parse_info();
                        let raw = owned.clone().into_vec();
                        if OwnedPathAttributes::new(ppi, raw.clone()) != owned || OwnedPathAttributes::from((ppi, raw.clone())) != owned
                            || Some(raw) != unhex(p).and_then(|b| ref_attr_section(&b)) {
                            return Some("O_OBS-BAD:new/from/into_vec".into());
                        }
                    }
                    let m = match PaMap::from_update_pdu(&pdu) { Ok(m) => m, Err(_) => return Some("Oerr".into()) };
                    let mut o = Vec::new();
                    let mut g = Vec::new();
                    for c in TYPED {
                        let x = by_code!(c, T => owned.get::<T>().map(PathAttribute::from), None);
                        if let Some(x) = x { o.push(format!("{}={}", c, show(&x))); }
                        let y = by_code!(c, T => m.get::<T>().map(PathAttribute::from), None);
                        if let Some(y) = y { g.push(format!("{}={}", c, show(&y))); }
                    }
                    Some(format!("O{}/{}", o.join(";"), g.join(";")))
                }
            }
        }
        _ => None,
    }
}

enum Ws {
    V4(RouteWorkshop<Ipv4UnicastNlri>),
    V6(RouteWorkshop<Ipv6UnicastNlri>),
    M4(RouteWorkshop<Ipv4MulticastNlri>),
    M6(RouteWorkshop<Ipv6MulticastNlri>),
}

macro_rules! on_ws {
    ($w:expr, $x:ident => $e:expr) => {
        match $w { Ws::V4($x) => $e, Ws::V6($x) => $e, Ws::M4($x) => $e, Ws::M6($x) => $e }
    };
}

fn show_nh(nh: &Option<NextHop>) -> String {
    match nh {
        None => "-".into(),
        Some(NextHop::Unicast(IpAddr::V4(a))) => format!("0.{}", hex(&a.octets())),
        Some(NextHop::Unicast(IpAddr::V6(a))) => format!("1.{}", hex(&a.octets())),
        Some(NextHop::Ipv6LL(a, b)) => format!("2.{}{}", hex(&a.octets()), hex(&b.octets())),
        Some(NextHop::MplsVpnUnicast(rd, IpAddr::V4(a))) => format!("3.{}{}", hex(rd.as_ref()), hex(&a.octets())),
        Some(NextHop::MplsVpnUnicast(rd, IpAddr::V6(a))) => format!("4.{}{}", hex(rd.as_ref()), hex(&a.octets())),
        Some(NextHop::Empty) => "5.-".into(),
        Some(_) => "9.-".into(),
    }
}

fn show_ws(w: &Ws) -> String {
    on_ws!(w, x => format!("nh={}|{}", show_nh(x.nexthop()), show_map(x.attributes())))
}

fn parse_comm(s: &str) -> Option<Community> {
    if s.is_empty() { return None; }
    let (k, h) = s.split_at(1);
    let raw = unhex(h)?;
    match k {
        "s" => Some(Community::Standard(StandardCommunity::from_raw(raw.try_into().ok()?))),
        "e" => Some(Community::Extended(ExtendedCommunity::from_raw(raw.try_into().ok()?))),
        "v" => Some(Community::Ipv6Extended(Ipv6ExtendedCommunity::from_raw(raw.try_into().ok()?))),
        "l" => Some(Community::Large(LargeCommunity::from_raw(raw.try_into().ok()?))),
        _ => None,
    }
}

fn parse_comms(s: &str) -> Option<Vec<Community>> {
    if s == "-" { return Some(vec![]); }
    s.split(',').map(parse_comm).collect()
}

fn show_comms(cs: &[Community]) -> String {
    if cs.is_empty() { return "-".into(); }
    cs.iter().map(|c| match c {
        Community::Standard(x) => format!("s{}", hex(&x.to_raw())),
        Community::Extended(x) => format!("e{}", hex(&x.to_raw())),
        Community::Ipv6Extended(x) => format!("v{}", hex(&x.to_raw())),
        Community::Large(x) => format!("l{}", hex(&x.to_raw())),
    }).collect::<Vec<_>>().join(",")
}

fn ws_tok(w: &mut Ws, tok: &str) -> Option<String> {
    let f: Vec<&str> = tok.split(':').collect();
    match f.as_slice() {
        ["set", c, v] => {
            let c = num(c)?;
            let v = unhex(v)?;
            by_scalar!(c, T => {
                let x: T = mk::<T>(&v)?;
                on_ws!(w, ws => ws.set_attr(x).unwrap());
            }, return None);
            Some(format!("S|{}", show_ws(w)))
        }
        ["get", c] => {
            let c = num(c)?;
            let r = by_scalar!(c, T => on_ws!(w, ws => ws.get_attr::<T>().map(PathAttribute::from)), return None);
            Some(format!("G{}", show_ret(r)))
        }
        ["setc", l] => {
            let cs = parse_comms(l)?;
            on_ws!(w, ws => ws.set_attr(cs).unwrap());
            Some(format!("C|{}", show_ws(w)))
        }
        ["getc"] => {
            let r: Option<Vec<Community>> = on_ws!(w, ws => ws.get_attr::<Vec<Community>>());
            Some(match r { Some(cs) => format!("c{}", show_comms(&cs)), None => "cnone".into() })
        }
        ["nh", t, h] => {
            let raw = unhex(h)?;
            let nh = match (*t, raw.len()) {
                ("0", 4) => NextHop::Unicast(IpAddr::V4(Ipv4Addr::from(<[u8; 4]>::try_from(raw).ok()?))),
                ("1", 16) => NextHop::Unicast(IpAddr::V6(Ipv6Addr::from(<[u8; 16]>::try_from(raw).ok()?))),
                ("2", 32) => NextHop::Ipv6LL(
                    Ipv6Addr::from(<[u8; 16]>::try_from(&raw[..16]).ok()?),
                    Ipv6Addr::from(<[u8; 16]>::try_from(&raw[16..]).ok()?)),
                ("3", 12) => NextHop::MplsVpnUnicast(RouteDistinguisher::new(<[u8; 8]>::try_from(&raw[..8]).ok()?),
                    IpAddr::V4(Ipv4Addr::from(<[u8; 4]>::try_from(&raw[8..]).ok()?))),
                ("4", 24) => NextHop::MplsVpnUnicast(RouteDistinguisher::new(<[u8; 8]>::try_from(&raw[..8]).ok()?),
                    IpAddr::V6(Ipv6Addr::from(<[u8; 16]>::try_from(&raw[8..]).ok()?))),
                ("5", 0) => NextHop::Empty,
                _ => return None,
            };
            let old = on_ws!(w, ws => ws.set_nexthop(nh));
            Some(format!("H{}|{}", show_nh(&old), show_ws(w)))
        }
        ["add", spec @ ..] => {
            let pa = parse_spec(spec)?;
            let r = on_ws!(w, ws => ws.attributes_mut().add_attribute(pa).unwrap());
            Some(format!("A{}|{}", show_ret(r), show_ws(w)))
        }
        ["rm", c] => {
            let c = typed_code(c)?;
            let r = by_code!(c, T => on_ws!(w, ws => ws.attributes_mut().remove::<T>().map(PathAttribute::from)), None);
            Some(format!("R{}|{}", show_ret(r), show_ws(w)))
        }
        [k, mode, p] if sess_of("wfu", k).is_some() => {
            let (four, ap) = sess_of("wfu", k)?;
            if *mode != "c" && *mode != "m" { return None; }
            let pdu = match parse_pdu(p, four, ap)? { None => return Some("Urej".into()), Some(pdu) => pdu };
            // the four NLRI types of the first version of this check: the workshop built is kept
            macro_rules! build {
                ($N:ty, $V:ident) => {{
                    let it = pdu.typed_announcements::<_, $N>();
                    let n = match it { Ok(Some(mut it)) => it.next(), _ => None };
                    match n {
                        Some(Ok(n)) => match RouteWorkshop::from_update_pdu(n.clone(), &pdu) {
                            Ok(r) => {
                                if let Some(why) = ws_obs(&r, &n) { return Some(format!("U_OBS-BAD:{}", why)); }
                                *w = Ws::$V(r); Some(format!("Uok|{}", show_ws(w)))
                            }
                            Err(_) => Some("Uerr".into()),
                        },
                        _ => Some("Unonlri".into()),
                    }
                }};
            }
            // every other NLRI type: the workshop built is observed (reply), its next hop and
            // attribute map are then carried over into an IPv4 unicast workshop for the tokens
            // that follow (they do not depend on the NLRI type)
            macro_rules! build_t {
                ($N:ty) => {{
                    let it = pdu.typed_announcements::<_, $N>();
                    let n = match it { Ok(Some(mut it)) => it.next(), _ => None };
                    match n {
                        Some(Ok(n)) => match RouteWorkshop::from_update_pdu(n.clone(), &pdu) {
                            Ok(r) => {
                                if let Some(why) = ws_obs(&r, &n) { return Some(format!("U_OBS-BAD:{}", why)); }
                                let shown = format!("nh={}|{}", show_nh(r.nexthop()), show_map(r.attributes()));
                                let mut t = match new_ws() { Ws::V4(t) => t, _ => unreachable!() };
                                t.set_attributes(r.attributes().clone());
                                if let Some(nh) = r.nexthop() { t.set_nexthop(*nh); }
                                *w = Ws::V4(t);
                                Some(format!("Uok|{}", shown))
                            }
                            Err(_) => Some("Uerr".into()),
                        },
                        _ => Some("Unonlri".into()),
                    }
                }};
            }
            if *mode == "c" {
                if !pdu.has_conventional_nlri() { return Some("Unonlri".into()); }
                if ap { build_t!(Ipv4UnicastAddpathNlri) } else { build!(Ipv4UnicastNlri, V4) }
            } else {
                // which family does the first MP_REACH_NLRI carry? (read off the wire here,
                // independent of routecore)
                let mp = ref_wire(&ref_attr_section(&unhex(p)?)?).into_iter().find(|x| x.1 == 14);
                match mp {
                    Some((_, _, v)) if v.len() >= 3 => match (u16::from_be_bytes([v[0], v[1]]), v[2], ap) {
                        (1, 1, false) => build!(Ipv4UnicastNlri, V4),
                        (2, 1, false) => build!(Ipv6UnicastNlri, V6),
                        (1, 2, false) => build!(Ipv4MulticastNlri, M4),
                        (2, 2, false) => build!(Ipv6MulticastNlri, M6),
                        (1, 1, true) => build_t!(Ipv4UnicastAddpathNlri),
                        (2, 1, true) => build_t!(Ipv6UnicastAddpathNlri),
                        (1, 2, true) => build_t!(Ipv4MulticastAddpathNlri),
                        (2, 2, true) => build_t!(Ipv6MulticastAddpathNlri),
                        (1, 4, false) => build_t!(Ipv4MplsUnicastNlri<Bytes>),
                        (1, 4, true) => build_t!(Ipv4MplsUnicastAddpathNlri<Bytes>),
                        (2, 4, false) => build_t!(Ipv6MplsUnicastNlri<Bytes>),
                        (2, 4, true) => build_t!(Ipv6MplsUnicastAddpathNlri<Bytes>),
                        (1, 128, false) => build_t!(Ipv4MplsVpnUnicastNlri<Bytes>),
                        (1, 128, true) => build_t!(Ipv4MplsVpnUnicastAddpathNlri<Bytes>),
                        (2, 128, false) => build_t!(Ipv6MplsVpnUnicastNlri<Bytes>),
                        (2, 128, true) => build_t!(Ipv6MplsVpnUnicastAddpathNlri<Bytes>),
                        (1, 132, false) => build_t!(Ipv4RouteTargetNlri<Bytes>),
                        (1, 132, true) => build_t!(Ipv4RouteTargetAddpathNlri<Bytes>),
                        (1, 133, false) => build_t!(Ipv4FlowSpecNlri<Bytes>),
                        (1, 133, true) => build_t!(Ipv4FlowSpecAddpathNlri<Bytes>),
                        (2, 133, false) => build_t!(Ipv6FlowSpecNlri<Bytes>),
                        (2, 133, true) => build_t!(Ipv6FlowSpecAddpathNlri<Bytes>),
                        (25, 65, false) => build_t!(L2VpnVplsNlri),
                        (25, 65, true) => build_t!(L2VpnVplsAddpathNlri),
                        (25, 70, false) => build_t!(L2VpnEvpnNlri<Bytes>),
                        (25, 70, true) => build_t!(L2VpnEvpnAddpathNlri<Bytes>),
                        _ => Some("Unonlri".into()),
                    },
                    _ => Some("Unonlri".into()),
                }
            }
        }
        _ => None,
    }
}

fn new_ws() -> Ws {
    let p = Prefix::new_v4(Ipv4Addr::new(10, 0, 0, 0), 8).unwrap();
    Ws::V4(RouteWorkshop::new(Ipv4UnicastNlri::try_from(p).unwrap()))
}

// ---------------------------------------------------------------------------
// reference side (independent of routecore): wire walker, encoder, simple map
// ---------------------------------------------------------------------------

/// the attribute section of an UPDATE PDU (None if the sections do not fit)
fn ref_attr_section(pdu: &[u8]) -> Option<Vec<u8>> {
    if pdu.len() < 23 { return None; }
    let wl = u16::from_be_bytes([pdu[19], pdu[20]]) as usize;
    let p = 21 + wl;
    if pdu.len() < p + 2 { return None; }
    let al = u16::from_be_bytes([pdu[p], pdu[p + 1]]) as usize;
    if pdu.len() < p + 2 + al { return None; }
    Some(pdu[p + 2..p + 2 + al].to_vec())
}

fn ref_nlri_section(pdu: &[u8]) -> Option<Vec<u8>> {
    if pdu.len() < 23 { return None; }
    let wl = u16::from_be_bytes([pdu[19], pdu[20]]) as usize;
    let p = 21 + wl;
    if pdu.len() < p + 2 { return None; }
    let al = u16::from_be_bytes([pdu[p], pdu[p + 1]]) as usize;
    if pdu.len() < p + 2 + al { return None; }
    Some(pdu[p + 2 + al..].to_vec())
}

/// (flags, code, value) triples, RFC 4271 4.3 framing; stops at the first short one
fn ref_wire(sec: &[u8]) -> Vec<(u8, u8, Vec<u8>)> {
    let mut out = Vec::new();
    let mut i = 0;
    while i + 3 <= sec.len() {
        let fl = sec[i];
        let code = sec[i + 1];
        let (len, h) = if fl & 0x10 != 0 {
            if i + 4 > sec.len() { break; }
            (u16::from_be_bytes([sec[i + 2], sec[i + 3]]) as usize, 4)
        } else { (sec[i + 2] as usize, 3) };
        if i + h + len > sec.len() { break; }
        out.push((fl, code, sec[i + h..i + h + len].to_vec()));
        i += h + len;
    }
    out
}

/// attribute flags per RFC 4271 5, 4456, 1997, 4360, 6793, 5701, 8092, 9234, 6368
fn ref_flags(code: u8) -> Option<u8> {
    match code {
        1 | 2 | 3 | 5 | 6 => Some(0x40),
        4 | 9 | 10 => Some(0x80),
        7 | 8 | 16 | 17 | 18 | 20 | 21 | 25 | 32 | 35 | 128 | 255 => Some(0xC0),
        _ => None,
    }
}

/// AS path value (4-octet) as a list of hops: ASN of a non-empty sequence, or a whole
/// other segment
#[derive(PartialEq, Debug, Clone)]
enum RHop { Asn([u8; 4]), Seg(u8, Vec<u8>) }

fn ref_hops_w(v: &[u8], w: usize) -> Option<Vec<RHop>> {
    let mut i = 0;
    let mut out = Vec::new();
    while i < v.len() {
        if i + 2 > v.len() { return None; }
        let t = v[i];
        let n = v[i + 1] as usize;
        if !(1..=4).contains(&t) { return None; }
        if i + 2 + w * n > v.len() { return None; }
        let body = &v[i + 2..i + 2 + w * n];
        let wide: Vec<[u8; 4]> = body.chunks(w).map(|c| if w == 4 { [c[0], c[1], c[2], c[3]] } else { [0, 0, c[0], c[1]] }).collect();
        if t == 2 && n > 0 {
            for c in wide { out.push(RHop::Asn(c)); }
        } else {
            out.push(RHop::Seg(t, wide.concat()));
        }
        i += 2 + w * n;
    }
    Some(out)
}
fn ref_hops(v: &[u8]) -> Option<Vec<RHop>> { ref_hops_w(v, 4) }

/// the same AS path with four-octet AS numbers (RFC 6793 4.2.2: a two-octet AS number is
/// the four-octet number with the same value)
fn widen_aspath(v: &[u8]) -> Vec<u8> {
    let mut out = Vec::new();
    let mut i = 0;
    while i + 2 <= v.len() {
        let n = v[i + 1] as usize;
        out.push(v[i]); out.push(v[i + 1]);
        for c in v[i + 2..(i + 2 + 2 * n).min(v.len())].chunks(2) { out.extend_from_slice(&[0, 0]); out.extend_from_slice(c); }
        i += 2 + 2 * n;
    }
    out
}

/// per-type length rules; `four` = the session carries four-octet AS numbers (AS_PATH and
/// AGGREGATOR change width with the session, AS4_PATH and AS4_AGGREGATOR never do)
fn ref_valid_w(code: u8, v: &[u8], four: bool) -> bool {
    let n = v.len();
    match code {
        1 => n == 1,
        2 => ref_hops_w(v, if four { 4 } else { 2 }).is_some(),
        17 => ref_hops(v).is_some(),
        3 | 4 | 5 | 9 | 20 | 35 => n == 4,
        6 => n == 0,
        7 => n == if four { 8 } else { 6 },
        18 => n == 8,
        8 | 10 => n % 4 == 0,
        16 => n % 8 == 0,
        21 => n == 5,
        25 => n % 20 == 0,
        32 => n % 12 == 0,
        128 => n >= 4,
        255 => true,
        _ => false,
    }
}
fn ref_valid(code: u8, v: &[u8]) -> bool { ref_valid_w(code, v, true) }

#[derive(Clone, PartialEq, Debug)]
struct RA { kind: char, code: u8, flags: u8, value: Vec<u8> }

impl RA {
    fn typed(code: u8, v: &[u8]) -> Option<RA> {
        let f = ref_flags(code)?;
        if !ref_valid(code, v) { return None; }
        Some(RA { kind: 't', code, flags: f, value: v.to_vec() })
    }
    fn from_spec(f: &[&str]) -> Option<RA> {
        match f {
            ["t", c, v] => RA::typed(c.parse().ok()?, &unhex(v)?),
            ["u", c, fl, v] => Some(RA { kind: 'u', code: c.parse().ok()?, flags: unhex(fl)?[0], value: unhex(v)? }),
            ["i", c, fl, v] => Some(RA { kind: 'i', code: c.parse().ok()?, flags: unhex(fl)?[0], value: unhex(v)? }),
            _ => None,
        }
    }
    /// the typed value an attribute received in a session of this width denotes, written with
    /// four-octet AS numbers (the only form the owned types have)
    fn from_wire(w: &(u8, u8, Vec<u8>), four: bool) -> RA {
        match ref_flags(w.1) {
            Some(f) => if ref_valid_w(w.1, &w.2, four) {
                           let value = if !four && w.1 == 2 { widen_aspath(&w.2) }
                               else if !four && w.1 == 7 { let mut x = vec![0u8, 0]; x.extend_from_slice(&w.2); x }
                               else { w.2.clone() };
                           RA { kind: 't', code: w.1, flags: f, value }
                       }
                       else { RA { kind: 'i', code: w.1, flags: f, value: w.2.clone() } },
            None => RA { kind: 'u', code: w.1, flags: w.0, value: w.2.clone() },
        }
    }
    /// is the observed `<k><hex>` an encoding of this attribute?
    fn matches(&self, shown: &str) -> Result<(), String> {
        if shown.is_empty() { return Err("empty".into()); }
        let (k, h) = shown.split_at(1);
        if k.chars().next() != Some(self.kind) { return Err(format!("variant {} expected {}", k, self.kind)); }
        let b = unhex(h).ok_or("hex")?;
        let w = ref_wire(&b);
        if w.len() != 1 || ref_enc_len(&w[0]) != b.len() { return Err("not one well-framed attribute".into()); }
        let (fl, code, val) = &w[0];
        if *code != self.code { return Err(format!("code {} expected {}", code, self.code)); }
        // EXTENDED_LEN only says how the length is framed (either form is a legal encoding of
        // the same attribute; which one is chosen is C04/C07's subject)
        // ... and whether PARTIAL is set on an Unimplemented / Invalid attribute when it is composed
        // is C07's subject (C17 speaks of their optional / transitive bits only)
        let mask = if self.kind == 't' { !0x10u8 } else { !0x30u8 };
        if *fl & mask != self.flags & mask { return Err(format!("flags {:02x} expected {:02x}", fl, self.flags)); }
        if self.kind == 't' && (self.code == 2 || self.code == 17) {
            if ref_hops(val) != ref_hops(&self.value) { return Err("AS path hops differ".into()); }
        } else if *val != self.value {
            return Err(format!("value {} expected {}", hex(val), hex(&self.value)));
        }
        Ok(())
    }
    fn transitive(&self) -> bool { self.flags & 0x40 != 0 }
}

fn ref_enc_len(w: &(u8, u8, Vec<u8>)) -> usize { (if w.0 & 0x10 != 0 { 4 } else { 3 }) + w.2.len() }

/// the simple reference map: an unordered association list
#[derive(Default, Clone)]
struct RMap(Vec<RA>);

impl RMap {
    fn get(&self, c: u8) -> Option<&RA> { self.0.iter().find(|a| a.code == c) }
    fn get_typed(&self, c: u8) -> Option<&RA> { self.get(c).filter(|a| a.kind == 't') }
    fn put(&mut self, a: RA) -> Option<RA> {
        let old = self.del(a.code);
        self.0.push(a);
        old
    }
    fn del(&mut self, c: u8) -> Option<RA> {
        let i = self.0.iter().position(|a| a.code == c)?;
        Some(self.0.remove(i))
    }
    fn sorted(&self) -> Vec<&RA> {
        let mut v: Vec<&RA> = self.0.iter().collect();
        v.sort_by_key(|a| a.code);
        v
    }
    /// all attributes of an UPDATE except MP_REACH/MP_UNREACH; of duplicates the first
    /// (which is what `OwnedPathAttributes::get` answers from the same bytes)
    fn from_pdu(pdu: &[u8], four: bool) -> Option<RMap> {
        let sec = ref_attr_section(pdu)?;
        let mut m = RMap::default();
        for w in ref_wire(&sec) {
            if w.1 == 14 || w.1 == 15 { continue; }
            if m.get(w.1).is_none() { m.put(RA::from_wire(&w, four)); }
        }
        Some(m)
    }
    /// check an observed `code=<k><hex>;...#<n>` against this map
    fn check_state(&self, st: &str) -> Result<(), String> {
        let (list, n) = st.rsplit_once('#').ok_or("state without #")?;
        let n: usize = n.parse().map_err(|_| "bytes_len")?;
        let items: Vec<&str> = if list.is_empty() { vec![] } else { list.split(';').collect() };
        let want = self.sorted();
        if items.len() != want.len() {
            return Err(format!("map holds {} attributes, expected {} ({:?})", items.len(), want.len(),
                want.iter().map(|a| a.code).collect::<Vec<_>>()));
        }
        let mut sum = 0usize;
        let mut prev: i32 = -1;
        for (it, a) in items.iter().zip(want.iter()) {
            let (k, shown) = it.split_once('=').ok_or("item")?;
            let k: i32 = k.parse().map_err(|_| "key")?;
            if k <= prev { return Err(format!("key {} after {}: more than one attribute per code or not in code order", k, prev)); }
            prev = k;
            if k != a.code as i32 { return Err(format!("key {} expected {}", k, a.code)); }
            a.matches(shown).map_err(|e| format!("attribute {}: {}", k, e))?;
            sum += (shown.len() - 1) / 2;
        }
        if n != sum { return Err(format!("bytes_len {} but the attributes encode to {} bytes", n, sum)); }
        Ok(())
    }
}

fn check_ret(got: &str, want: Option<&RA>, what: &str) -> Result<(), String> {
    match want {
        None => if got == "-" { Ok(()) } else { Err(format!("{} returned {} expected none", what, got)) },
        Some(a) => if got == "-" { Err(format!("{} returned none, expected code {} value {}", what, a.code, hex(&a.value))) }
                   else { a.matches(got).map_err(|e| format!("{} returned {}: {}", what, got, e)) },
    }
}

fn split_reply(r: &str) -> (&str, Option<&str>) {
    match r.split_once('|') { Some((a, b)) => (a, Some(b)), None => (r, None) }
}

fn ref_comm_size(k: char) -> usize { match k { 's' => 4, 'e' => 8, 'v' => 20, _ => 12 } }
fn ref_comm_code(k: char) -> u8 { match k { 's' => 8, 'e' => 16, 'v' => 25, _ => 32 } }

fn oracle_pm(toks: &[&str], reps: &[&str]) -> Result<(), String> {
    let mut a = RMap::default();
    let mut b = RMap::default();
    for (i, (tok, rep)) in toks.iter().zip(reps.iter()).enumerate() {
        let f: Vec<&str> = tok.split(':').collect();
        let (head, st) = split_reply(rep);
        let e = |s: String| format!("op {} `{}`: {}", i, tok, s);
        match f.as_slice() {
            ["set", c, v] => {
                let x = RA::typed(c.parse().unwrap(), &unhex(v).unwrap()).ok_or_else(|| e("reference rejects value".into()))?;
                let old = a.get_typed(x.code).cloned();
                check_ret(&head[1..], old.as_ref(), "set (replaced value)").map_err(e)?;
                a.put(x);
            }
            ["sfe", spec @ ..] => {
                let x = RA::from_spec(spec).ok_or_else(|| e("spec".into()))?;
                if x.kind == 't' {
                    let old = a.get_typed(x.code).cloned();
                    check_ret(&head[1..], old.as_ref(), "set_from_enum").map_err(e)?;
                    a.put(x);
                } else {
                    // The property speaks of setting TYPED attributes only.  What set_from_enum does
                    // with an Unimplemented / Invalid attribute is left free: it may leave the map
                    // as it is (then nothing was replaced and nothing may be reported), or store the
                    // attribute under its code like add_attribute does (then it reports nothing or
                    // the entry it replaced).  Whichever happened is read off the state and carried
                    // on, so everything the property does state is still judged on the later ops.
                    let stv = st.ok_or_else(|| e("no state".into()))?;
                    let mut stored = a.clone();
                    let old = stored.put(x);
                    let as_dropped = a.check_state(stv).and_then(|_| check_ret(&head[1..], None, "set_from_enum (map unchanged)"));
                    let as_stored = stored.check_state(stv).and_then(|_|
                        if &head[1..] == "-" { Ok(()) } else { check_ret(&head[1..], old.as_ref(), "set_from_enum (attribute stored)") });
                    match (as_dropped, as_stored) {
                        (Ok(()), _) => {}
                        (_, Ok(())) => { a = stored; }
                        (Err(d), Err(s)) => return Err(e(format!("neither left alone ({}) nor stored ({})", d, s))),
                    }
                }
            }
            ["add", spec @ ..] => {
                let x = RA::from_spec(spec).ok_or_else(|| e("spec".into()))?;
                let old = a.put(x);
                check_ret(&head[1..], old.as_ref(), "add_attribute").map_err(e)?;
            }
            ["get", c] => {
                check_ret(&head[1..], a.get_typed(c.parse().unwrap()), "get").map_err(e)?;
            }
            ["rm", c] => {
                let c: u8 = c.parse().unwrap();
                let old = a.del(c).filter(|x| x.kind == 't');
                check_ret(&head[1..], old.as_ref(), "remove").map_err(e)?;
            }
            ["rnt"] => {
                // typed: the type's flags; unrecognised: the received flags.  An Invalid attribute
                // (recognised type, malformed value) built by hand with flags that differ from its
                // type's in the transitive bit comes neither from a typed value nor from an accepted
                // UPDATE: the property does not say which of the two decides, either outcome is taken
                let keys: Vec<u8> = st.map(|s| s.rsplit_once('#').map_or("", |x| x.0).split(';')
                    .filter_map(|it| it.split_once('=').and_then(|(k, _)| k.parse().ok())).collect()).unwrap_or_default();
                a.0.retain(|x| {
                    let free = x.kind == 'i' && ref_flags(x.code).map_or(false, |f| (f ^ x.flags) & 0x40 != 0);
                    if free { keys.contains(&x.code) } else { x.transitive() }
                });
            }
            ["sw"] => { std::mem::swap(&mut a, &mut b); }
            ["mg"] => {
                for x in std::mem::take(&mut b.0) { a.put(x); }
                if head != "M0" { return Err(e("merge_upsert left attributes in the source".into())); }
            }
            [k, p] if sess_of("fu", k).is_some() => {
                let (four, _) = sess_of("fu", k).unwrap();
                if head == "Fok" {
                    a = RMap::from_pdu(&unhex(p).unwrap(), four).ok_or_else(|| e("reference cannot read PDU".into()))?;
                } else if head != "Frej" { return Err(e(format!("from_update_pdu failed on an accepted PDU: {}", head))); }
            }
            [k, p] if sess_of("mu", k).is_some() => {
                let (four, _) = sess_of("mu", k).unwrap();
                if head == "Uok" {
                    let m = RMap::from_pdu(&unhex(p).unwrap(), four).ok_or_else(|| e("reference cannot read PDU".into()))?;
                    for x in m.0 { a.put(x); }
                } else if head != "Urej" { return Err(e(format!("from_update_pdu failed on an accepted PDU: {}", head))); }
            }
            [k, p] if sess_of("own", k).is_some() => {
                let (four, _) = sess_of("own", k).unwrap();
                if head == "Orej" { continue; }
                if head == "Oerr" { return Err(e("from_update_pdu failed on an accepted PDU".into())); }
                let (own, map) = head[1..].split_once('/').ok_or_else(|| e("own reply".into()))?;
                if own != map {
                    return Err(e(format!("OwnedPathAttributes::get and PaMap::get disagree: owned [{}] map [{}]", own, map)));
                }
                let m = RMap::from_pdu(&unhex(p).unwrap(), four).ok_or_else(|| e("reference cannot read PDU".into()))?;
                let want: Vec<&RA> = m.sorted().into_iter().filter(|x| x.kind == 't').collect();
                let items: Vec<&str> = if own.is_empty() { vec![] } else { own.split(';').collect() };
                if items.len() != want.len() { return Err(e(format!("typed attributes {} expected {}", items.len(), want.len()))); }
                for (it, x) in items.iter().zip(want.iter()) {
                    let (k, shown) = it.split_once('=').ok_or_else(|| e("item".into()))?;
                    if k != x.code.to_string() { return Err(e(format!("code {} expected {}", k, x.code))); }
                    x.matches(shown).map_err(|s| e(format!("attribute {}: {}", k, s)))?;
                }
            }
            _ => return Err(e("unknown token".into())),
        }
        if let Some(st) = st { a.check_state(st).map_err(e)?; }
    }
    Ok(())
}

/// the next hop of the NLRI a workshop is built for: the NEXT_HOP attribute for conventional
/// NLRI (RFC 4271 5.1.3), else the next hop field of MP_REACH_NLRI in the form the family uses
/// (RFC 4760 3, 2545 3, 8277, 4364 4.3.2, 4659 3.2.1, 4684, 4761, 7432; FlowSpec has none, RFC 8955 4)
fn ref_nexthop(mode: &str, pdu: &[u8]) -> Option<String> {
    let ws = ref_wire(&ref_attr_section(pdu)?);
    let conv = |ws: &Vec<(u8, u8, Vec<u8>)>| -> Option<String> {
        let w = ws.iter().find(|w| w.1 == 3)?;
        if w.2.len() == 4 { Some(format!("0.{}", hex(&w.2))) } else { None }
    };
    if mode == "c" { return conv(&ws); }
    let w = ws.iter().find(|w| w.1 == 14)?;
    let v = &w.2;
    if v.len() < 4 { return None; }
    let (afi, safi) = (u16::from_be_bytes([v[0], v[1]]), v[2]);
    // IPv4 unicast NLRI of a PDU that has conventional NLRI are the conventional ones
    if (afi, safi) == (1, 1) && ref_nlri_section(pdu).map_or(false, |s| !s.is_empty()) { return conv(&ws); }
    let l = v[3] as usize;
    if (afi == 1 || afi == 2) && safi == 133 { return Some("5.-".into()); }
    if v.len() < 4 + l { return None; }
    let tag = match (afi, safi, l) {
        (1, 1, 4) | (1, 2, 4) | (1, 132, 4) | (25, 65, 4) | (25, 70, 4) | (1, 4, 4) | (2, 4, 4) => 0,
        (2, 1, 16) | (2, 2, 16) | (1, 4, 16) | (2, 4, 16) => 1,
        (2, 1, 32) => 2,
        (1, 128, 12) => 3,
        (2, 128, 24) => 4,
        _ => return None,
    };
    Some(format!("{}.{}", tag, hex(&v[4..4 + l])))
}

fn oracle_ws(toks: &[&str], reps: &[&str]) -> Result<(), String> {
    let mut a = RMap::default();
    let mut nh: Option<String> = None;
    for (i, (tok, rep)) in toks.iter().zip(reps.iter()).enumerate() {
        let f: Vec<&str> = tok.split(':').collect();
        let (head, st) = split_reply(rep);
        let e = |s: String| format!("op {} `{}`: {}", i, tok, s);
        match f.as_slice() {
            ["set", c, v] => {
                let x = RA::typed(c.parse().unwrap(), &unhex(v).unwrap()).ok_or_else(|| e("reference rejects value".into()))?;
                a.put(x);
            }
            ["get", c] => { check_ret(&head[1..], a.get_typed(c.parse().unwrap()), "get_attr").map_err(e)?; }
            ["setc", l] => {
                // the set replaces the community content: one list attribute per flavour present
                for k in ['s', 'e', 'v', 'l'] {
                    let mut val = Vec::new();
                    if *l != "-" {
                        for c in l.split(',') { if c.starts_with(k) { val.extend(unhex(&c[1..]).unwrap()); } }
                    }
                    if val.is_empty() { a.del(ref_comm_code(k)); }
                    else { a.put(RA { kind: 't', code: ref_comm_code(k), flags: 0xC0, value: val }); }
                }
            }
            ["getc"] => {
                // the communities the workshop holds, each flavour in the order it was stored.  How
                // the four flavours are interleaved in the answer (the code groups them: standard,
                // extended, IPv6 extended, large; the list as it was set is another legitimate answer)
                // is not prescribed: the lists are compared flavour by flavour
                let got: Vec<&str> = if &head[1..] == "-" { vec![] } else { head[1..].split(',').collect() };
                let mut n = 0;
                for k in ['s', 'e', 'v', 'l'] {
                    let mut want = Vec::new();
                    if let Some(x) = a.get_typed(ref_comm_code(k)) {
                        for c in x.value.chunks(ref_comm_size(k)) { want.push(format!("{}{}", k, hex(c))); }
                    }
                    let have: Vec<&str> = got.iter().copied().filter(|c| c.starts_with(k)).collect();
                    n += have.len();
                    if have != want.iter().map(|x| x.as_str()).collect::<Vec<_>>() {
                        return Err(e(format!("get_attr::<Vec<Community>>() returned [{}], the workshop holds [{}] of flavour {}", &head[1..], want.join(","), k)));
                    }
                }
                if n != got.len() { return Err(e(format!("get_attr::<Vec<Community>>() returned something that is no community: [{}]", &head[1..]))); }
            }
            ["nh", t, h] => {
                let old = nh.clone().unwrap_or("-".into());
                if head[1..] != old { return Err(e(format!("set_nexthop returned {} expected {}", &head[1..], old))); }
                nh = Some(format!("{}.{}", t, h));
            }
            ["add", spec @ ..] => {
                let x = RA::from_spec(spec).ok_or_else(|| e("spec".into()))?;
                let old = a.put(x);
                check_ret(&head[1..], old.as_ref(), "add_attribute").map_err(e)?;
            }
            ["rm", c] => {
                let old = a.del(c.parse().unwrap()).filter(|x| x.kind == 't');
                check_ret(&head[1..], old.as_ref(), "remove").map_err(e)?;
            }
            [k, mode, p] if sess_of("wfu", k).is_some() => {
                let (four, _) = sess_of("wfu", k).unwrap();
                let pdu = unhex(p).unwrap();
                if head == "Uok" {
                    let want = ref_nexthop(mode, &pdu);
                    nh = want.clone();
                    if want.is_none() { return Err(e("workshop built although the NLRI has no next hop in the PDU".into())); }
                    a = RMap::from_pdu(&pdu, four).ok_or_else(|| e("reference cannot read PDU".into()))?;
                    a.del(3);
                    if *mode == "c" && ref_nlri_section(&pdu).map_or(true, |s| s.is_empty()) {
                        return Err(e("conventional NLRI taken from a PDU without any".into()));
                    }
                } else if head == "Uerr" && ref_nexthop(mode, &pdu).is_some() {
                    return Err(e("from_update_pdu failed although the PDU carries the next hop of the NLRI".into()));
                }
            }
            _ => return Err(e("unknown token".into())),
        }
        if let Some(st) = st {
            let (n, m) = st.split_once('|').ok_or_else(|| e("workshop state".into()))?;
            let want = format!("nh={}", nh.clone().unwrap_or("-".into()));
            if n != want { return Err(e(format!("next hop {} expected {}", n, want))); }
            a.check_state(m).map_err(e)?;
        }
    }
    Ok(())
}

// ---------------------------------------------------------------------------
// generator
// ---------------------------------------------------------------------------

fn gen_aspath(rng: &mut Rng) -> Vec<u8> {
    let mut v = Vec::new();
    let nseg = match rng.below(10) { 0 => 0, 1..=5 => 1, 6..=8 => 2, _ => 3 };
    for _ in 0..nseg {
        let t = match rng.below(8) { 0 => 1, 1 => 3, 2 => 4, _ => 2 };
        let n = match rng.below(40) { 0 => 0, 1 => 255, 2 => 130, _ => rng.usize(1, 4) };
        v.push(t);
        v.push(n as u8);
        for _ in 0..n { v.extend(rng.u32().to_be_bytes()); }
    }
    v
}

fn gen_val(rng: &mut Rng, code: u8, valid: bool) -> Vec<u8> {
    // values over 255 bytes (two-octet length form) for valid and, less often, malformed ones
    let big = if valid { rng.chance(1, 25) } else { rng.chance(1, 40) };
    let k = |rng: &mut Rng, unit: usize| -> usize {
        if big { 256 / unit + rng.usize(1, 3) } else { rng.usize(if unit == 4 { 0 } else { 1 }, 3) }
    };
    let mut v = match code {
        1 => vec![*rng.pick(&[0u8, 1, 2, 2, 0, 7])],
        2 | 17 => gen_aspath(rng),
        3 | 4 | 5 | 9 | 20 | 35 => rng.bytes(4),
        6 => vec![],
        7 | 18 => rng.bytes(8),
        // list values now and then repeat elements (crate::props::c07::units): nothing may merge or drop them
        8 | 10 => { let n = k(rng, 4); crate::props::c07::units(rng, 4, n) }
        16 => { let n = k(rng, 8); crate::props::c07::units(rng, 8, n) }
        21 => rng.bytes(5),
        25 => { let n = k(rng, 20); crate::props::c07::units(rng, 20, n) }
        32 => { let n = k(rng, 12); crate::props::c07::units(rng, 12, n) }
        128 => { let n = if big { 300 } else { rng.usize(0, 12) }; rng.bytes(4 + n) }
        255 => { let n = if big { 260 } else { rng.usize(0, 9) }; rng.bytes(n) }
        _ => { let n = rng.usize(0, 9); rng.bytes(n) }
    };
    if !valid && code != 255 {
        // wrong length for the type
        match code {
            6 => v.push(1),
            2 | 17 => { v.push(2); v.push(3); v.push(0); }
            128 => v.truncate(rng.usize(0, 3)),
            _ => { if v.is_empty() || rng.bool() { v.push(rng.u8()); } else { v.pop(); } }
        }
        if big && v.len() < 256 && code != 128 { v = rng.bytes(301); }
        if ref_valid(code, &v) { v.push(0); if ref_valid(code, &v) { v.push(0); } }
    }
    v
}

fn gen_spec(rng: &mut Rng, pool: &[u8]) -> String {
    match rng.below(10) {
        0..=4 => { let c = *rng.pick(pool); format!("t:{}:{}", c, hex(&gen_val(rng, c, true))) }
        5..=7 => {
            // unimplemented: mostly unrecognised codes; sometimes a recognised code by hand.
            // EXTENDED_LEN mostly consistent with the value length, sometimes set on a short value
            let c = if rng.chance(3, 4) { *rng.pick(&UNIMPL_CODES) } else { *rng.pick(pool) };
            let n = if rng.chance(1, 30) { 300 } else { rng.usize(0, 6) };
            let mut fl = *rng.pick(&[0x80u8, 0xC0, 0xC0, 0x40, 0x00, 0xE0, 0xA0, 0xC1]);
            if n > 255 || rng.chance(1, 10) { fl |= 0x10; }
            format!("u:{}:{:02x}:{}", c, fl, hex(&rng.bytes(n)))
        }
        _ => {
            // invalid: a recognised code with a value of the wrong shape (any size)
            let c = *rng.pick(pool);
            let fl = if rng.chance(2, 3) { ref_flags(c).unwrap_or(0xC0) } else { *rng.pick(&[0x80u8, 0xC0, 0x40, 0x00]) };
            format!("i:{}:{:02x}:{}", c, fl, hex(&gen_val(rng, c, false)))
        }
    }
}


fn gen_prefix(rng: &mut Rng, maxbits: u8) -> Vec<u8> {
    let bits = rng.range(0, maxbits as u64) as u8;
    let nb = (bits as usize + 7) / 8;
    let mut b = rng.bytes(nb);
    if bits % 8 != 0 { let m = 0xffu8 << (8 - bits % 8); b[nb - 1] &= m; }
    let mut v = vec![bits];
    v.extend(b);
    v
}

fn wire_attr(fl: u8, code: u8, val: &[u8], force_ext: bool) -> Vec<u8> {
    let mut v = Vec::new();
    if val.len() > 255 || force_ext {
        v.push(fl | 0x10); v.push(code); v.extend((val.len() as u16).to_be_bytes());
    } else {
        v.push(fl & !0x10); v.push(code); v.push(val.len() as u8);
    }
    v.extend(val);
    v
}

fn gen_aspath2(rng: &mut Rng) -> Vec<u8> {
    let mut v = Vec::new();
    let nseg = match rng.below(10) { 0 => 0, 1..=5 => 1, 6..=8 => 2, _ => 3 };
    for _ in 0..nseg {
        let t = match rng.below(8) { 0 => 1, 1 => 3, 2 => 4, _ => 2 };
        let n = match rng.below(40) { 0 => 0, 1 => 255, 2 => 130, _ => rng.usize(1, 4) };
        v.push(t);
        v.push(n as u8);
        for _ in 0..n { v.extend(match rng.below(6) { 0 => 23456u16, 1 => 0, 2 => 65535, _ => rng.u16() }.to_be_bytes()); }
    }
    v
}

/// value of an attribute as a speaker of a session of this width sends it
fn gen_val_w(rng: &mut Rng, code: u8, valid: bool, four: bool) -> Vec<u8> {
    if four || (code != 2 && code != 7) { return gen_val(rng, code, valid); }
    if code == 7 { let n = if valid { 6 } else { *rng.pick(&[5usize, 7, 8, 0]) }; return rng.bytes(n); }
    let mut v = gen_aspath2(rng);
    if !valid { v.push(2); v.push(3); v.push(0); }
    v
}

const MP_FAMS: [((u16, u8), &str); 13] = [((1, 1), "Ipv4Unicast"), ((1, 2), "Ipv4Multicast"), ((1, 4), "Ipv4MplsUnicast"),
    ((1, 128), "Ipv4MplsVpnUnicast"), ((1, 132), "Ipv4RouteTarget"), ((1, 133), "Ipv4FlowSpec"), ((2, 1), "Ipv6Unicast"),
    ((2, 2), "Ipv6Multicast"), ((2, 4), "Ipv6MplsUnicast"), ((2, 128), "Ipv6MplsVpnUnicast"), ((2, 133), "Ipv6FlowSpec"),
    ((25, 65), "L2VpnVpls"), ((25, 70), "L2VpnEvpn")];

/// NLRI of an MP family (reference encoding of c05 values), with path ids in an ADD-PATH session
fn gen_mp_nlri(rng: &mut Rng, fam: usize, ap: bool, min: usize) -> Vec<u8> {
    let name = MP_FAMS[fam].1;
    let var = c05::variant(&if ap { format!("{}Addpath", name) } else { name.to_string() }).unwrap();
    let mut out = Vec::new();
    for _ in 0..rng.usize(min, 2) {
        let mut v = c05::gen_val(rng, var);
        if v.raw.len() > 40 { v.raw = if var.shape == c05::Shape::Fs && !var.v6 { c05::gen_fs_components(rng, 7) } else { rng.bytes(7) }; }
        out.extend(c05::ref_enc(var.shape, &v));
    }
    out
}

/// IPv4 unicast prefixes for the conventional sections, with path ids in an ADD-PATH session
fn gen_conv(rng: &mut Rng, ap: bool, min: usize, max: usize) -> Vec<u8> {
    let mut v = Vec::new();
    for _ in 0..rng.usize(min, max) {
        if ap { v.extend(rng.u32().to_be_bytes()); }
        v.extend(gen_prefix(rng, 32));
    }
    v
}

/// an UPDATE that routecore accepts in a session of the given kind; `want_conv`/`want_mp`
/// steer what it announces
pub(crate) fn gen_pdu_s(rng: &mut Rng, want_conv: bool, want_mp: bool, four: bool, ap: bool) -> Vec<u8> {
    let wd = if rng.chance(1, 4) { gen_conv(rng, ap, 0, 2) } else { vec![] };
    let mut attrs: Vec<Vec<u8>> = Vec::new();
    let mut codes: Vec<u8> = vec![1, 2];
    if want_conv || rng.chance(1, 3) { codes.push(3); }
    for _ in 0..rng.usize(0, 5) { codes.push(*rng.pick(&TYPED)); }
    if !four && rng.chance(1, 2) { codes.push(*rng.pick(&[7u8, 17, 18, 2])); }
    if rng.chance(1, 4) { codes.push(*rng.pick(&UNIMPL_CODES)); }
    if rng.chance(1, 5) { let c = *rng.pick(&codes); codes.push(c); }          // duplicate code
    if rng.chance(1, 12) { codes.retain(|c| *c != 3); }
    codes.dedup_by(|a, b| a == b && rng.chance(1, 2));
    if rng.chance(1, 3) { let n = codes.len(); if n > 1 { let i = rng.usize(0, n - 1); let j = rng.usize(0, n - 1); codes.swap(i, j); } }
    for c in codes {
        if let Some(f) = ref_flags(c) {
            let valid = !rng.chance(1, 12);
            // sometimes what a speaker of the other width would send
            let w = if (c == 2 || c == 7) && rng.chance(1, 10) { !four } else { four };
            let val = gen_val_w(rng, c, valid, w);
            let fl = if rng.chance(1, 10) { *rng.pick(&[0x40u8, 0x80, 0xC0, 0xE0]) } else { f };
            attrs.push(wire_attr(fl, c, &val, rng.chance(1, 15)));
        } else {
            let n = if rng.chance(1, 30) { 300 } else { rng.usize(0, 6) };
            let fl = *rng.pick(&[0x80u8, 0xC0, 0xC0, 0x40, 0xE0]);
            attrs.push(wire_attr(fl, c, &rng.bytes(n), false));
        }
    }
    if want_mp || rng.chance(1, 5) {
        // the family and a next hop length: mostly one the family uses
        let fam = match rng.below(20) { 0..=4 => 6, 5 => 1, 6 => 7, 7 => 0, _ => rng.usize(0, 12) };
        let (afi, safi) = MP_FAMS[fam].0;
        let natural: &[usize] = match (afi, safi) { (2, 1) => &[16, 16, 32], (2, 2) => &[16], (1, 4) | (2, 4) => &[4, 16], (1, 128) => &[12],
            (2, 128) => &[24], (_, 133) => &[0], _ => &[4] };
        let nhl = if rng.chance(1, 12) { *rng.pick(&[0usize, 4, 8, 12, 16, 24, 32]) } else { *rng.pick(natural) };
        let mut v = Vec::new();
        v.extend(afi.to_be_bytes()); v.push(safi); v.push(nhl as u8); v.extend(rng.bytes(nhl)); v.push(0);
        v.extend(gen_mp_nlri(rng, fam, ap, if want_mp { 1 } else { 0 }));
        let at = rng.usize(0, attrs.len());
        attrs.insert(at, wire_attr(0x80, 14, &v, false));
    }
    if rng.chance(1, 8) {
        let mut v = vec![0, 2, 1];
        if ap { v.extend(rng.u32().to_be_bytes()); }
        v.extend(gen_prefix(rng, 128));
        attrs.push(wire_attr(0x80, 15, &v, false));
    }
    let attrs: Vec<u8> = attrs.concat();
    let nlri = if want_conv { gen_conv(rng, ap, 1, 2) } else if rng.chance(1, 4) { gen_conv(rng, ap, 0, 2) } else { vec![] };
    let len = 19 + 2 + wd.len() + 2 + attrs.len() + nlri.len();
    let mut p = vec![0xffu8; 16];
    p.extend((len as u16).to_be_bytes());
    p.push(2);
    p.extend((wd.len() as u16).to_be_bytes()); p.extend(wd);
    p.extend((attrs.len() as u16).to_be_bytes()); p.extend(attrs);
    p.extend(nlri);
    p
}

/// damage inside the attribute section only (section lengths stay): flips flags, codes,
/// lengths and values, so attributes turn Invalid / Unimplemented / mis-framed (rejected).
/// Nothing is filtered: Unimplemented with EXTENDED_LEN on a short value, Invalid > 255 bytes and
/// MP_REACH_NLRI shorter than 5 bytes all go through (model and code agree on them since the
/// fixes F7, F8 and 40c5314).
pub(crate) fn mutate_attrs(rng: &mut Rng, pdu: Vec<u8>) -> Vec<u8> {
    let wl = u16::from_be_bytes([pdu[19], pdu[20]]) as usize;
    let p = 21 + wl;
    if p + 2 > pdu.len() { return pdu; }
    let al = u16::from_be_bytes([pdu[p], pdu[p + 1]]) as usize;
    if al == 0 || p + 2 + al > pdu.len() { return pdu; }
    let mut m = pdu.clone();
    for _ in 0..rng.usize(1, 2) {
        let i = p + 2 + rng.usize(0, al - 1);
        match rng.below(4) {
            0 => m[i] ^= 1 << rng.below(8),
            1 => m[i] = rng.u8(),
            2 => m[i] = m[i].wrapping_add(1),
            _ => m[i] = *rng.pick(&[0u8, 1, 2, 3, 4, 8, 14, 15, 16, 0x40, 0x80, 0xC0, 0xD0, 0xFF]),
        }
    }
    m
}

/// damage anywhere after the marker: header length, type, section lengths, the octets of the
/// conventional withdrawn / announced prefixes (length octets above 32, host bits, truncation)
fn mutate_frame(rng: &mut Rng, pdu: Vec<u8>) -> Vec<u8> {
    let mut m = pdu;
    let wl = u16::from_be_bytes([m[19], m[20]]) as usize;
    match rng.below(6) {
        // a prefix-length octet of the withdrawn section
        0 if wl > 0 => { m[21] = *rng.pick(&[33u8, 40, 64, 128, 255, 32, 31]); }
        // the last octets are the announced prefixes if there are any
        1 | 2 => { let n = m.len(); let i = n - 1 - rng.usize(0, 5.min(n - 20)); m[i] = *rng.pick(&[33u8, 40, 129, 255, 0, 1, 32]); }
        3 => { let i = rng.usize(16, m.len() - 1); m[i] = rng.u8(); }
        4 => { m.pop(); }
        _ => { let i = rng.usize(16, m.len() - 1); m[i] ^= 1 << rng.below(8); }
    }
    m
}

/// an UPDATE whose MP_REACH_NLRI / MP_UNREACH_NLRI is shorter than its fixed part (0..=4 resp.
/// 0..=2 octets of value): refused by `UpdateMessage::parse` (update.rs:954, :968)
fn gen_short_mp(rng: &mut Rng, four: bool) -> Vec<u8> {
    let mut attrs = wire_attr(0x40, 1, &[0], false);
    attrs.extend(wire_attr(0x40, 2, &gen_val_w(rng, 2, true, four), false));
    let full = [0u8, 2, 1, 16, 0];
    if rng.chance(2, 3) { attrs.extend(wire_attr(0x80, 14, &full[..rng.usize(0, 5)], rng.chance(1, 6))); }
    else { attrs.extend(wire_attr(0x80, 15, &full[..rng.usize(0, 3)], rng.chance(1, 6))); }
    attrs.extend(wire_attr(0x40, 5, &rng.bytes(4), false));
    let len = 23 + attrs.len();
    let mut p = vec![0xffu8; 16];
    p.extend((len as u16).to_be_bytes()); p.push(2); p.extend([0, 0]);
    p.extend((attrs.len() as u16).to_be_bytes()); p.extend(attrs);
    p
}

/// session suffix of a PDU token and what it stands for
/// one attribute of the (kind x length encoding) grid (found thin by tools/c17_attr_stats.py): `malformed` = a
/// value the type's length rules refuse in a session of that AS number width; `enc`: 0 = one-octet length, 1 =
/// EXTENDED_LEN on a value of at most 255 octets, 2 = a value of more than 255 octets; `None` where the cell
/// does not exist (no well-formed value over 255 octets of a fixed-size kind, no malformed ATTR_SET over 255
/// octets, no malformed value of the reserved type 255)
fn grid_attr(rng: &mut Rng, code: u8, malformed: bool, enc: u8, four: bool) -> Option<Vec<u8>> {
    let fixed = matches!(code, 1 | 3 | 4 | 5 | 6 | 7 | 9 | 18 | 20 | 21 | 35);
    let val: Vec<u8> = if !malformed {
        if enc == 2 {
            if fixed { return None; }
            match code {
                2 if !four => { let mut v = vec![2u8, 130]; for _ in 0..130 { v.extend(rng.u16().to_be_bytes()); } v }
                2 | 17 => { let t = *rng.pick(&[1u8, 2, 3, 4]); let mut v = vec![t, 70]; for _ in 0..70 { v.extend(rng.u32().to_be_bytes()); } v }
                8 | 10 => { let k = rng.usize(64, 80); rng.bytes(4 * k) }
                16 => { let k = rng.usize(33, 40); rng.bytes(8 * k) }
                25 => { let k = rng.usize(13, 16); rng.bytes(20 * k) }
                32 => { let k = rng.usize(22, 30); rng.bytes(12 * k) }
                128 => { let k = rng.usize(260, 400); rng.bytes(4 + k) }
                _ => { let k = rng.usize(256, 400); rng.bytes(k) }
            }
        } else { gen_val_w(rng, code, true, four) }
    } else {
        let lens: Vec<usize> = if enc == 2 { (256..330).collect() } else { (0..40).collect() };
        let cand: Vec<usize> = lens.into_iter().filter(|&n| !ref_valid_w(code, &vec![0u8; n], four)).collect();
        if cand.is_empty() { return None; }
        let n = *rng.pick(&cand);
        let mut v = rng.bytes(n);
        if code == 2 || code == 17 { for x in v.iter_mut().take(2) { *x = 0; } }
        v
    };
    if val.len() > 255 && enc != 2 { return None; }
    if !malformed && !ref_valid_w(code, &val, four) { return None; }
    Some(wire_attr(ref_flags(code).unwrap(), code, &val, enc != 0))
}

pub(crate) fn gen_sess(rng: &mut Rng) -> (&'static str, bool, bool) {
    match rng.below(10) { 0..=4 => ("", true, false), 5..=6 => ("2", false, false), 7..=8 => ("a", true, true), _ => ("2a", false, true) }
}

fn gen_src(rng: &mut Rng, four: bool, ap: bool) -> Vec<u8> {
    if rng.chance(1, 40) { return gen_short_mp(rng, four); }
    let p = gen_pdu_s(rng, false, false, four, ap);
    match rng.below(12) { 0..=3 => mutate_attrs(rng, p), 4 => mutate_frame(rng, p), _ => p }
}

fn gen_comm(rng: &mut Rng) -> String {
    match rng.below(4) {
        0 => format!("s{}", hex(&rng.bytes(4))),
        1 => format!("e{}", hex(&rng.bytes(8))),
        2 => format!("v{}", hex(&rng.bytes(20))),
        _ => format!("l{}", hex(&rng.bytes(12))),
    }
}

fn gen_comms(rng: &mut Rng) -> String {
    let n = match rng.below(12) { 0 => 0, 1 => 70, _ => rng.usize(1, 6) };
    if n == 0 { return "-".into(); }
    // sometimes only one or two flavours
    let only: Option<u64> = if rng.chance(1, 3) { Some(rng.below(4)) } else { None };
    let mut l: Vec<String> = (0..n).map(|_| {
        let mut c = gen_comm(rng);
        if let Some(k) = only { while rng.chance(3, 4) && !c.starts_with(['s', 'e', 'v', 'l'][k as usize]) { c = gen_comm(rng); } }
        c
    }).collect();
    // a set of communities may name one community twice: what was stored is what was given
    if rng.chance(1, 4) { for _ in 0..rng.usize(1, 3) { let e = rng.pick(&l).clone(); let at = rng.usize(0, l.len()); l.insert(at, e); } }
    l.join(",")
}

fn gen_pm(rng: &mut Rng) -> String {
    let n = match rng.below(10) { 0 => rng.usize(1, 3), 1 => 40, _ => rng.usize(2, 40) };
    let npool = rng.usize(2, 6);
    let pool: Vec<u8> = (0..npool).map(|_| *rng.pick(&TYPED)).collect();
    let mut toks = vec!["pm".to_string()];
    for _ in 0..n {
        let c = *rng.pick(&pool);
        let t = match rng.below(100) {
            0..=27 => format!("set:{}:{}", c, hex(&gen_val(rng, c, true))),
            28..=42 => format!("get:{}", if rng.chance(1, 6) { *rng.pick(&TYPED) } else { c }),
            43..=52 => format!("rm:{}", c),
            53..=67 => format!("add:{}", gen_spec(rng, &pool)),
            68..=75 => format!("sfe:{}", gen_spec(rng, &pool)),
            76..=79 => "rnt".into(),
            80..=84 => "sw".into(),
            85..=88 => "mg".into(),
            89..=92 => { let (x, f, a) = gen_sess(rng); format!("fu{}:{}", x, hex(&gen_src(rng, f, a))) }
            93..=96 => { let (x, f, a) = gen_sess(rng); format!("mu{}:{}", x, hex(&gen_src(rng, f, a))) }
            _ => { let (x, f, a) = gen_sess(rng); format!("own{}:{}", x, hex(&gen_src(rng, f, a))) }
        };
        toks.push(t);
    }
    toks.join(" ")
}

fn gen_nh(rng: &mut Rng) -> String {
    match rng.below(6) {
        0 => format!("nh:0:{}", hex(&rng.bytes(4))),
        1 => format!("nh:1:{}", hex(&rng.bytes(16))),
        2 => format!("nh:2:{}", hex(&rng.bytes(32))),
        3 => format!("nh:3:{}", hex(&rng.bytes(12))),
        4 => format!("nh:4:{}", hex(&rng.bytes(24))),
        _ => "nh:5:-".to_string(),
    }
}

fn gen_ws(rng: &mut Rng) -> String {
    let n = match rng.below(10) { 0 => rng.usize(1, 3), 1 => 40, _ => rng.usize(2, 30) };
    let npool = rng.usize(2, 5);
    let pool: Vec<u8> = (0..npool).map(|_| *rng.pick(&SCALAR)).collect();
    let mut toks = vec!["ws".to_string()];
    for _ in 0..n {
        let c = *rng.pick(&pool);
        let t = match rng.below(100) {
            0..=24 => format!("set:{}:{}", c, hex(&gen_val(rng, c, true))),
            25..=44 => format!("get:{}", if rng.chance(1, 6) { *rng.pick(&SCALAR) } else { c }),
            45..=59 => format!("setc:{}", gen_comms(rng)),
            60..=74 => "getc".into(),
            75..=79 => gen_nh(rng),
            80..=84 => {
                let lp = [8u8, 16, 25, 32, c];
                format!("add:{}", gen_spec(rng, &lp))
            }
            85..=88 => format!("rm:{}", *rng.pick(&[8u8, 16, 25, 32, c])),
            89..=94 => { let (x, y) = (!rng.chance(1, 10), rng.chance(1, 4)); let (sx, f, a) = gen_sess(rng); format!("wfu{}:c:{}", sx, hex(&gen_pdu_s(rng, x, y, f, a))) }
            _ => { let (x, y) = (rng.chance(1, 4), !rng.chance(1, 10)); let (sx, f, a) = gen_sess(rng); format!("wfu{}:m:{}", sx, hex(&gen_pdu_s(rng, x, y, f, a))) }
        };
        toks.push(t);
    }
    toks.join(" ")
}

impl Prop for C17 {
    fn gen(&self, rng: &mut Rng, tier: Tier) -> Vec<String> {
        // thorough is 20x, not 100x: a sequence is ~4 kB of request and ~12 kB of reply
        let n = match tier { Tier::Quick => 3000, Tier::Thorough => 60_000 };
        let mut out = Vec::new();
        // every typed kind once through set/get/replace/remove, and through the workshop
        for c in TYPED {
            let v1 = gen_val(rng, c, true);
            let v2 = gen_val(rng, c, true);
            out.push(format!("pm get:{c} set:{c}:{} get:{c} set:{c}:{} get:{c} rm:{c} get:{c} rm:{c}", hex(&v1), hex(&v2)));
            out.push(format!("pm add:i:{c}:c0:{} get:{c} set:{c}:{} rm:{c}", hex(&gen_val(rng, c, false)), hex(&v1)));
        }
        for c in SCALAR {
            let v1 = gen_val(rng, c, true);
            let v2 = gen_val(rng, c, true);
            out.push(format!("ws get:{c} set:{c}:{} get:{c} set:{c}:{} get:{c}", hex(&v1), hex(&v2)));
        }
        // every MP family in every kind of session: the workshop's next hop, the map, the owned form
        for fam in 0..13 {
            for (sx, f, a) in [("", true, false), ("2", false, false), ("a", true, true), ("2a", false, true)] {
                for _ in 0..2 {
                    let (afi, safi) = MP_FAMS[fam].0;
                    let nhls: &[usize] = match (afi, safi) { (2, 1) => &[16, 32], (2, 2) => &[16], (1, 4) | (2, 4) => &[4, 16], (1, 128) => &[12],
                        (2, 128) => &[24], (_, 133) => &[0], _ => &[4] };
                    for &nhl in nhls {
                        let mut v = Vec::new();
                        v.extend(afi.to_be_bytes()); v.push(safi); v.push(nhl as u8); v.extend(rng.bytes(nhl)); v.push(0);
                        v.extend(gen_mp_nlri(rng, fam, a, 1));
                        let mut attrs = wire_attr(0x40, 1, &[0], false);
                        attrs.extend(wire_attr(0x40, 2, &gen_val_w(rng, 2, true, f), false));
                        attrs.extend(wire_attr(0x80, 14, &v, false));
                        attrs.extend(wire_attr(0xC0, 7, &gen_val_w(rng, 7, true, f), false));
                        attrs.extend(wire_attr(0x40, 5, &rng.bytes(4), false));
                        let len = 23 + attrs.len();
                        let mut p = vec![0xffu8; 16];
                        p.extend((len as u16).to_be_bytes()); p.push(2); p.extend([0, 0]);
                        p.extend((attrs.len() as u16).to_be_bytes()); p.extend(attrs);
                        let p = hex(&p);
                        out.push(format!("ws wfu{sx}:m:{p} get:2 get:7 getc"));
                        out.push(format!("pm own{sx}:{p} fu{sx}:{p} get:2 get:7 rnt"));
                    }
                }
            }
        }
        // the grid: every typed kind x well formed / malformed x the three length encodings on input, plus
        // unrecognised types with EXTENDED_LEN on a short value and with a long value, in the four session kinds,
        // through the owned form, the map (+ remove_non_transitives) and the workshop
        for (sx, f, _a) in [("", true, false), ("2", false, false), ("a", true, true), ("2a", false, true)] {
            let frame = |attrs: &[u8]| -> String {
                let len = 23 + attrs.len();
                let mut p = vec![0xffu8; 16];
                p.extend((len as u16).to_be_bytes()); p.push(2); p.extend([0, 0]);
                p.extend((attrs.len() as u16).to_be_bytes()); p.extend_from_slice(attrs);
                hex(&p)
            };
            for c in TYPED {
                for malformed in [false, true] {
                    for enc in 0..3u8 {
                        for k in 0..3 {
                            if let Some(a) = grid_attr(rng, c, malformed, enc, f) {
                                let mut attrs = if k == 2 && c != 1 { wire_attr(0x40, 1, &[1], false) } else { vec![] };
                                attrs.extend(a);
                                let p = frame(&attrs);
                                out.push(format!("pm own{sx}:{p} fu{sx}:{p} get:{c} rnt"));
                                if k == 0 { out.push(format!("ws wfu{sx}:m:{p} get:{c}")); }
                            }
                        }
                    }
                }
            }
            for &c in &UNIMPL_CODES[..6] {
                for (n, ext) in [(0usize, true), (3, true), (255, true), (256, true), (600, true), (7, false)] {
                    let fl = *rng.pick(&[0x80u8, 0xC0, 0x40, 0xE0, 0x00]);
                    let p = frame(&wire_attr(fl, c, &rng.bytes(n), ext));
                    out.push(format!("pm own{sx}:{p} fu{sx}:{p} rnt"));
                }
            }
        }
        for i in 0..n {
            match i % 10 {
                0..=5 => out.push(gen_pm(rng)),
                6..=8 => out.push(gen_ws(rng)),
                _ => {
                    // a source PDU through every consumer
                    let (x, y) = (rng.chance(2, 3), rng.chance(2, 3));
                    let (sx, f, a) = gen_sess(rng);
                    let raw = gen_pdu_s(rng, x, y, f, a);
                    let p = hex(&raw);
                    let q = hex(&mutate_attrs(rng, raw));
                    out.push(format!("pm own{sx}:{p} fu{sx}:{p} rnt"));
                    out.push(format!("pm own{sx}:{q} fu{sx}:{q} rnt"));
                    out.push(format!("ws wfu{sx}:c:{p} getc"));
                    out.push(format!("ws wfu{sx}:m:{p} getc"));
                    if i % 40 == 9 {
                        // the acceptance gate on damaged frames and short MP attributes
                        let r = hex(&mutate_frame(rng, unhex(&p).unwrap()));
                        let s = hex(&gen_short_mp(rng, f));
                        out.push(format!("pm fu{sx}:{r} own{sx}:{r} get:1"));
                        out.push(format!("ws wfu{sx}:c:{r} wfu{sx}:m:{s}"));
                        out.push(format!("pm fu{sx}:{s} get:1"));
                    }
                }
            }
        }
        out
    }

    fn exec(&self, line: &str) -> String {
        let toks: Vec<&str> = line.split(' ').collect();
        let mut out = Vec::new();
        match toks.first() {
            Some(&"pm") => {
                let mut a = PaMap::empty();
                let mut b = PaMap::empty();
                for t in &toks[1..] {
                    match pm_tok(&mut a, &mut b, t) { Some(r) => out.push(r), None => return "bad-op".into() }
                }
            }
            Some(&"ws") => {
                let mut w = new_ws();
                for t in &toks[1..] {
                    match ws_tok(&mut w, t) { Some(r) => out.push(r), None => return "bad-op".into() }
                }
            }
            _ => return "bad-op".into(),
        }
        out.join(" ")
    }

    fn oracle(&self, line: &str, reply: &str) -> Result<(), String> {
        if reply == "bad-op" { return Ok(()); }
        if reply == "panic" { return Err("panic in a map/workshop operation".into()); }
        if let Some(i) = reply.find("_OBS-BAD:") { return Err(format!("two public views of the same map / workshop / owned attributes disagree: {}", &reply[i + 9..].chars().take(60).collect::<String>())); }
        let toks: Vec<&str> = line.split(' ').collect();
        let reps: Vec<&str> = if reply.is_empty() { vec![] } else { reply.split(' ').collect() };
        if reps.len() != toks.len() - 1 { return Err("reply count".into()); }
        match toks[0] {
            "pm" => oracle_pm(&toks[1..], &reps),
            "ws" => oracle_ws(&toks[1..], &reps),
            _ => Ok(()),
        }
    }

    fn nontrivial(&self, _line: &str, reply: &str) -> bool {
        reply != "bad-op" && reply != "panic" && reply.contains('|')
    }

    fn class(&self, line: &str, reply: &str) -> String {
        let kind = line.split(' ').next().unwrap_or("");
        if reply == "bad-op" || reply == "panic" { return format!("{}:{}", kind, reply); }
        let n = line.split(' ').count() - 1;
        let len = if n <= 5 { "1-5" } else if n <= 15 { "6-15" } else if n <= 30 { "16-30" } else { "31-40" };
        let padded = format!(" {}", line);
        let mut feat = String::new();
        for (k, name) in [(" fu", "+upd"), (" mu", "+upd"), (" own", "+owned"), (" wfu", "+wfu"),
                          (" setc:", "+comms"), (" mg", "+merge"), (" rnt", "+rnt")] {
            if padded.contains(k) && !feat.contains(name) { feat.push_str(name); }
        }
        for (ks, name) in [([" fu2:", " mu2:", " own2:", " wfu2:"], "+2oct"), ([" fua:", " mua:", " owna:", " wfua:"], "+addpath"),
                           ([" fu2a:", " mu2a:", " own2a:", " wfu2a:"], "+2oct+addpath")] {
            if ks.iter().any(|k| padded.contains(k)) { feat.push_str(name); }
        }
        let mut outc = String::new();
        for (k, name) in [("Uok|nh=0", ":nh4"), ("Uok|nh=1", ":nh6"), ("Uok|nh=2", ":nhll"), ("Uok|nh=3", ":nhvpn4"), ("Uok|nh=4", ":nhvpn6"),
                          ("Uok|nh=5", ":nhempty"), ("Uerr", ":uerr"), ("Unonlri", ":nonlri"),
                          ("rej", ":rej")] {
            if reply.contains(k) { outc.push_str(name); }
        }
        format!("{}:{}{}{}", kind, len, feat, outc)
    }
}
