//! C04: typed path attributes encode/decode (src/bgp/path_attributes.rs).
//!
//! value   origin:N | aspath:H | nexthop:N | med:N | localpref:N | atomic | aggregator:ASN:ADDR |
//!         communities:C.C.C | originator:N |
//!         clusterlist:N.N | extcomm:HEX.HEX | as4path:H | as4aggregator:ASN:ADDR | connector:N |
//!         aspathlimit:UB:ASN | ipv6extcomm:HEX.HEX | largecomm:HEX.HEX | otc:N | attrset:ASN:HEX | reserved:HEX
//! requests  enc VALUE | dec W HEX | decall W HEX | msg HEX
use crate::common::*;
use crate::props::c13::{build, erase_flat, field, gen_hop_path, gen_hop_path_g, is_flat, join, parse_api_hops, parse_w,
    ref_hops, ref_segments, show_hop, THop};
use inetnum::asn::Asn;
use octseq::Parser;
use routecore::bgp::aspath::HopPath;
use routecore::bgp::message::{PduParseInfo, SessionConfig, UpdateMessage};
use routecore::bgp::path_attributes::*;
use routecore::bgp::types::*;
use std::net::Ipv4Addr;

pub struct C04;

/// a typed attribute value as written in the line protocol
#[derive(Clone, Debug, PartialEq)]
pub(crate) enum V {
    Origin(u8), AsPath(Vec<THop>), NextHop(u32), Med(u32), LocalPref(u32), Atomic, Aggregator(u32, u32),
    Communities(Vec<u32>), Originator(u32), ClusterList(Vec<u32>), ExtComm(Vec<Vec<u8>>), As4Path(Vec<THop>),
    As4Aggregator(u32, u32), Connector(u32), AsPathLimit(u8, u32), Ipv6ExtComm(Vec<Vec<u8>>),
    LargeComm(Vec<Vec<u8>>), Otc(u32), AttrSet(u32, Vec<u8>), Reserved(Vec<u8>),
}

/// (code, canonical flags) of the 20 typed kinds – RFC 4271 5, 4456, 4360, 6793, 5701, 8092, 9234, 6368
const TABLE: &[(u8, u8)] = &[(1, 0x40), (2, 0x40), (3, 0x40), (4, 0x80), (5, 0x40), (6, 0x40), (7, 0xC0), (8, 0xC0),
    (9, 0x80), (10, 0x80), (16, 0xC0), (17, 0xC0), (18, 0xC0), (20, 0xC0), (21, 0xC0), (25, 0xC0), (32, 0xC0),
    (35, 0xC0), (128, 0xC0), (255, 0xC0)];

pub(crate) fn canon_flags(code: u8) -> Option<u8> { TABLE.iter().find(|(c, _)| *c == code).map(|(_, f)| *f) }

impl V {
    pub(crate) fn code(&self) -> u8 {
        match self {
            V::Origin(_) => 1, V::AsPath(_) => 2, V::NextHop(_) => 3, V::Med(_) => 4, V::LocalPref(_) => 5, V::Atomic => 6,
            V::Aggregator(..) => 7, V::Communities(_) => 8, V::Originator(_) => 9, V::ClusterList(_) => 10,
            V::ExtComm(_) => 16, V::As4Path(_) => 17, V::As4Aggregator(..) => 18, V::Connector(_) => 20,
            V::AsPathLimit(..) => 21, V::Ipv6ExtComm(_) => 25, V::LargeComm(_) => 32, V::Otc(_) => 35,
            V::AttrSet(..) => 128, V::Reserved(_) => 255,
        }
    }
    /// reference value bytes (None for the AS path kinds: judged by hops)
    pub(crate) fn ref_value(&self) -> Option<Vec<u8>> {
        let cat = |l: &Vec<Vec<u8>>| l.iter().flatten().copied().collect::<Vec<u8>>();
        let u32s = |l: &Vec<u32>| l.iter().flat_map(|x| x.to_be_bytes()).collect::<Vec<u8>>();
        Some(match self {
            V::Origin(v) => vec![*v],
            V::AsPath(_) | V::As4Path(_) => return None,
            V::NextHop(a) | V::Med(a) | V::LocalPref(a) | V::Originator(a) | V::Connector(a) | V::Otc(a) => a.to_be_bytes().to_vec(),
            V::Atomic => vec![],
            V::Aggregator(a, b) | V::As4Aggregator(a, b) => { let mut v = a.to_be_bytes().to_vec(); v.extend(b.to_be_bytes()); v }
            V::Communities(l) | V::ClusterList(l) => u32s(l),
            V::ExtComm(l) | V::Ipv6ExtComm(l) | V::LargeComm(l) => cat(l),
            V::AsPathLimit(u, a) => { let mut v = vec![*u]; v.extend(a.to_be_bytes()); v }
            V::AttrSet(o, a) => { let mut v = o.to_be_bytes().to_vec(); v.extend(a); v }
            V::Reserved(r) => r.clone(),
        })
    }
}

pub(crate) fn nats(l: &[u32]) -> String { l.iter().map(|x| x.to_string()).collect::<Vec<_>>().join(".") }
pub(crate) fn recs(l: &[Vec<u8>]) -> String { l.iter().map(|x| hex(x)).collect::<Vec<_>>().join(".") }
fn thops(v: &[THop]) -> String {
    join(v.iter().map(|h| match h {
        THop::Asn(a) => format!("a{}", a),
        THop::Seg(t, w, a) => format!("s{}/{}:{}", t, w, nats(a)),
    }).collect())
}

/// canonical reply text
pub(crate) fn show_v(v: &V) -> String {
    match v {
        V::Origin(n) => format!("origin:{}", n),
        V::AsPath(h) => format!("aspath:{}", thops(h)),
        V::NextHop(n) => format!("nexthop:{}", n),
        V::Med(n) => format!("med:{}", n),
        V::LocalPref(n) => format!("localpref:{}", n),
        V::Atomic => "atomic".into(),
        V::Aggregator(a, b) => format!("aggregator:{}:{}", a, b),
        V::Communities(l) => format!("communities:{}", nats(l)),
        V::Originator(n) => format!("originator:{}", n),
        V::ClusterList(l) => format!("clusterlist:{}", nats(l)),
        V::ExtComm(l) => format!("extcomm:{}", recs(l)),
        V::As4Path(h) => format!("as4path:{}", thops(h)),
        V::As4Aggregator(a, b) => format!("as4aggregator:{}:{}", a, b),
        V::Connector(n) => format!("connector:{}", n),
        V::AsPathLimit(u, a) => format!("aspathlimit:{}:{}", u, a),
        V::Ipv6ExtComm(l) => format!("ipv6extcomm:{}", recs(l)),
        V::LargeComm(l) => format!("largecomm:{}", recs(l)),
        V::Otc(n) => format!("otc:{}", n),
        V::AttrSet(o, a) => format!("attrset:{}:{}", o, hex(a)),
        V::Reserved(r) => format!("reserved:{}", hex(r)),
    }
}

/// request text (the same as the reply text)
pub(crate) fn req_v(v: &V) -> String { show_v(v) }

/// the value a receiver sees: in the hop path of AS_PATH / AS4_PATH a non-empty AS_SEQUENCE held as ONE
/// segment hop is the ASNs it contains, segment hops are four octets wide; every other kind is itself
pub(crate) fn normal_form(v: &V) -> V {
    let nf = |h: &Vec<THop>| -> Vec<THop> {
        let mut out = Vec::new();
        for x in h {
            match x {
                THop::Asn(a) => out.push(THop::Asn(*a)),
                THop::Seg(2, _, a) if !a.is_empty() => out.extend(a.iter().map(|y| THop::Asn(*y))),
                THop::Seg(t, _, a) => out.push(THop::Seg(*t, 4, a.clone())),
            }
        }
        out
    };
    match v { V::AsPath(h) => V::AsPath(nf(h)), V::As4Path(h) => V::As4Path(nf(h)), _ => v.clone() }
}

fn p_u32(s: &str) -> Option<u32> { if !s.is_empty() && s.bytes().all(|c| c.is_ascii_digit()) { s.parse().ok() } else { None } }
fn p_u8(s: &str) -> Option<u8> { p_u32(s).and_then(|n| u8::try_from(n).ok()) }
fn p_nats(s: &str) -> Option<Vec<u32>> { if s.is_empty() { Some(vec![]) } else { s.split('.').map(p_u32).collect() } }
fn p_recs(k: usize, s: &str) -> Option<Vec<Vec<u8>>> {
    if s.is_empty() { return Some(vec![]); }
    s.split('.').map(|h| if h == "-" { None } else { unhex(h).filter(|b| b.len() == k) }).collect()
}

pub(crate) fn parse_req(s: &str) -> Option<V> {
    let (kind, rest) = match s.split_once(':') { Some((k, r)) => (k, Some(r)), None => (s, None) };
    let two = |r: &str| -> Option<(u32, u32)> { let (a, b) = r.split_once(':')?; Some((p_u32(a)?, p_u32(b)?)) };
    Some(match (kind, rest) {
        ("origin", Some(r)) => V::Origin(p_u8(r)?),
        ("aspath", Some(r)) => V::AsPath(parse_api_hops(r)?),
        ("nexthop", Some(r)) => V::NextHop(p_u32(r)?),
        ("med", Some(r)) => V::Med(p_u32(r)?),
        ("localpref", Some(r)) => V::LocalPref(p_u32(r)?),
        ("atomic", None) => V::Atomic,
        ("aggregator", Some(r)) => { let (a, b) = two(r)?; V::Aggregator(a, b) }
        ("communities", Some(r)) => V::Communities(p_nats(r)?),
        ("originator", Some(r)) => V::Originator(p_u32(r)?),
        ("clusterlist", Some(r)) => V::ClusterList(p_nats(r)?),
        ("extcomm", Some(r)) => V::ExtComm(p_recs(8, r)?),
        ("as4path", Some(r)) => V::As4Path(parse_api_hops(r)?),
        ("as4aggregator", Some(r)) => { let (a, b) = two(r)?; V::As4Aggregator(a, b) }
        ("connector", Some(r)) => V::Connector(p_u32(r)?),
        ("aspathlimit", Some(r)) => { let (a, b) = r.split_once(':')?; V::AsPathLimit(p_u8(a)?, p_u32(b)?) }
        ("ipv6extcomm", Some(r)) => V::Ipv6ExtComm(p_recs(20, r)?),
        ("largecomm", Some(r)) => V::LargeComm(p_recs(12, r)?),
        ("otc", Some(r)) => V::Otc(p_u32(r)?),
        ("attrset", Some(r)) => { let (a, b) = r.split_once(':')?; V::AttrSet(p_u32(a)?, unhex(b)?) }
        ("reserved", Some(r)) => V::Reserved(unhex(r)?),
        _ => return None,
    })
}

// ------------------------------------------------- routecore values <-> text
fn first_attr(bytes: &[u8], four: bool) -> Option<Result<PathAttribute, ()>> {
    let v = bytes.to_vec();
    let ppi = if four { PduParseInfo::modern() } else { PduParseInfo::legacy() };
    let mut it = PathAttributes::new(Parser::from_ref(&v), ppi);
    match it.next()? { Ok(w) => Some(w.to_owned().map_err(|_| ())), Err(_) => None }
}

/// the empty StandardCommunitiesList / LargeCommunitiesList / ClusterIds have no public
/// constructor: obtain them by decoding an empty attribute
fn empty_of(code: u8) -> PathAttribute {
    first_attr(&[canon_flags(code).unwrap(), code, 0], true).unwrap().unwrap()
}

fn ip(n: u32) -> Ipv4Addr { Ipv4Addr::from(n) }

fn to_rc(v: &V) -> PathAttribute {
    match v {
        V::Origin(n) => Origin(OriginType::from(*n)).into(),
        V::AsPath(h) => build(h).into(),
        V::NextHop(a) => ConventionalNextHop(ip(*a)).into(),
        V::Med(n) => MultiExitDisc(*n).into(),
        V::LocalPref(n) => LocalPref(*n).into(),
        V::Atomic => AtomicAggregate.into(),
        V::Aggregator(a, b) => AggregatorInfo::new(Asn::from_u32(*a), ip(*b)).into(),
        V::Communities(l) => {
            let PathAttribute::StandardCommunities(mut scl) = empty_of(8) else { panic!("no empty list") };
            for c in l { scl.add_community((*c).into()); }
            // (tie coverage) fmap hands out the communities that were added, in order
            assert!(scl.clone().fmap(|c| c.to_u32()) == *l, "StandardCommunitiesList::fmap");
            scl.into()
        }
        V::Originator(a) => OriginatorId(ip(*a)).into(),
        V::ClusterList(l) => {
            // ClusterIds::new is private: the only way to a value is the decoder
            let mut b = if l.len() * 4 > 255 { vec![0x90, 10] } else { vec![0x80, 10] };
            if l.len() * 4 > 255 { b.extend(((l.len() * 4) as u16).to_be_bytes()); } else { b.push((l.len() * 4) as u8); }
            for x in l { b.extend(x.to_be_bytes()); }
            let pa = first_attr(&b, true).unwrap().unwrap();
            if let PathAttribute::ClusterList(c) = &pa { assert!(c.len() == l.len() && c.len() == c.cluster_ids().len(), "ClusterIds::len"); }
            pa
        }
        V::ExtComm(l) => {
            // (tie coverage) all but the last through `new`, the last through `add_community`; `fmap` hands them out
            let all: Vec<routecore::bgp::communities::ExtendedCommunity> = l.iter().map(|r| <[u8; 8]>::try_from(&r[..]).unwrap().into()).collect();
            let mut x = ExtendedCommunitiesList::new(all[..all.len().saturating_sub(1)].to_vec());
            if let Some(c) = all.last() { x.add_community(*c); }
            assert!(x.clone().fmap(|c| c) == all, "ExtendedCommunitiesList::fmap / add_community");
            x.into()
        }
        V::As4Path(h) => As4Path(build(h)).into(),
        V::As4Aggregator(a, b) => As4Aggregator(AggregatorInfo::new(Asn::from_u32(*a), ip(*b))).into(),
        V::Connector(a) => Connector(ip(*a)).into(),
        V::AsPathLimit(u, a) => AsPathLimitInfo::new(*u, Asn::from_u32(*a)).into(),
        V::Ipv6ExtComm(l) => {
            let all: Vec<routecore::bgp::communities::Ipv6ExtendedCommunity> = l.iter().map(|r| <[u8; 20]>::try_from(&r[..]).unwrap().into()).collect();
            let mut x = Ipv6ExtendedCommunitiesList::new(all[..all.len().saturating_sub(1)].to_vec());
            if let Some(c) = all.last() { x.add_community(*c); }
            assert!(x.clone().fmap(|c| c) == all, "Ipv6ExtendedCommunitiesList::fmap / add_community");
            x.into()
        }
        V::LargeComm(l) => {
            let PathAttribute::LargeCommunities(mut lc) = empty_of(32) else { panic!("no empty list") };
            for r in l { lc.add_community(<[u8; 12]>::try_from(&r[..]).unwrap().into()); }
            assert!(lc.clone().fmap(|c| c.to_raw().to_vec()) == *l, "LargeCommunitiesList::fmap");
            lc.into()
        }
        V::Otc(a) => Otc(Asn::from_u32(*a)).into(),
        V::AttrSet(o, a) => AttributeSet::new(Asn::from_u32(*o), a.clone()).into(),
        V::Reserved(r) => ReservedRaw::new(r.clone()).into(),
    }
}

/// AsPathLimitInfo, AttributeSet and ReservedRaw have private fields and no accessor: their content is
/// observed through the public API as the value octets `PathAttribute::compose` writes for them
/// (never off derive(Debug), whose output is no part of any contract).
fn composed_value(pa: &PathAttribute) -> Option<Vec<u8>> {
    let b = compose(pa);
    match ref_split(&b) { Some((_, _, v, rest)) if rest.is_empty() => Some(v.to_vec()), _ => None }
}

fn show_path(h: &HopPath) -> String { join(h.iter().map(show_hop).collect()) }

pub(crate) fn show_rc(pa: &PathAttribute) -> String {
    match pa {
        PathAttribute::Origin(o) => format!("typed:origin:{}", u8::from(o.0)),
        PathAttribute::AsPath(h) => format!("typed:aspath:{}", show_path(h)),
        PathAttribute::ConventionalNextHop(n) => format!("typed:nexthop:{}", u32::from(n.0)),
        PathAttribute::MultiExitDisc(m) => format!("typed:med:{}", m.0),
        PathAttribute::LocalPref(m) => format!("typed:localpref:{}", m.0),
        PathAttribute::AtomicAggregate(_) => "typed:atomic".into(),
        PathAttribute::Aggregator(a) => format!("typed:aggregator:{}:{}", a.asn().into_u32(), u32::from(a.address())),
        PathAttribute::StandardCommunities(l) => format!("typed:communities:{}",
            l.communities().iter().map(|c| u32::from_be_bytes(c.to_raw()).to_string()).collect::<Vec<_>>().join(".")),
        PathAttribute::OriginatorId(n) => format!("typed:originator:{}", u32::from(n.0)),
        PathAttribute::ClusterList(l) => format!("typed:clusterlist:{}", l.cluster_ids().iter()
            .map(|c| u32::from_be_bytes((*c).into()).to_string()).collect::<Vec<_>>().join(".")),
        PathAttribute::ExtendedCommunities(l) => format!("typed:extcomm:{}", l.communities().iter().map(|c| hex(&c.to_raw())).collect::<Vec<_>>().join(".")),
        PathAttribute::As4Path(p) => format!("typed:as4path:{}", show_path(&p.0)),
        PathAttribute::As4Aggregator(a) => format!("typed:as4aggregator:{}:{}", a.0.asn().into_u32(), u32::from(a.0.address())),
        PathAttribute::Connector(n) => format!("typed:connector:{}", u32::from(n.0)),
        PathAttribute::AsPathLimit(_) => match composed_value(pa) {
            Some(v) if v.len() == 5 => format!("typed:aspathlimit:{}:{}", v[0], be32(&v[1..])),
            _ => "typed:aspathlimit:?".into() },
        PathAttribute::Ipv6ExtendedCommunities(l) => format!("typed:ipv6extcomm:{}", l.communities().iter().map(|c| hex(&c.to_raw())).collect::<Vec<_>>().join(".")),
        PathAttribute::LargeCommunities(l) => format!("typed:largecomm:{}", l.communities().iter().map(|c| hex(&c.to_raw())).collect::<Vec<_>>().join(".")),
        PathAttribute::Otc(o) => format!("typed:otc:{}", o.0.into_u32()),
        PathAttribute::AttrSet(_) => match composed_value(pa) {
            Some(v) if v.len() >= 4 => format!("typed:attrset:{}:{}", be32(&v), hex(&v[4..])),
            _ => "typed:attrset:?".into() },
        PathAttribute::Reserved(_) => match composed_value(pa) {
            Some(v) => format!("typed:reserved:{}", hex(&v)),
            None => "typed:reserved:?".into() },
        PathAttribute::Unimplemented(u) => format!("unimpl:{}:{}:{}", u8::from(u.flags()), u.type_code(), hex(u.value())),
        PathAttribute::Invalid(f, c, v) => format!("invalid:{}:{}:{}", u8::from(*f), c, hex(v)),
    }
}

fn compose(pa: &PathAttribute) -> Vec<u8> {
    let mut v = Vec::new();
    pa.compose(&mut v).unwrap();
    v
}

// ------------------------------------------------------------ reference side
/// (flags, code, value, rest) or None when the header/value is cut short (RFC 4271 4.3)
pub(crate) fn ref_split(bs: &[u8]) -> Option<(u8, u8, &[u8], &[u8])> {
    if bs.len() < 3 { return None; }
    let (fl, tc) = (bs[0], bs[1]);
    let (hl, n) = if fl & 0x10 != 0 { if bs.len() < 4 { return None; } (4, u16::from_be_bytes([bs[2], bs[3]]) as usize) } else { (3, bs[2] as usize) };
    if bs.len() < hl + n { return None; }
    Some((fl, tc, &bs[hl..hl + n], &bs[hl + n..]))
}

/// the type's length rule, from the RFCs; for the AS paths the segment structure
pub(crate) fn ref_rule(code: u8, four: bool, v: &[u8]) -> bool {
    let n = v.len();
    match code {
        1 => n == 1, 3 | 4 | 5 | 9 | 20 | 35 => n == 4, 6 => n == 0, 7 => n == if four { 8 } else { 6 },
        8 | 10 => n % 4 == 0, 16 => n % 8 == 0, 18 => n == 8, 21 => n == 5, 25 => n % 20 == 0, 32 => n % 12 == 0,
        128 => n >= 4, 255 => true,
        2 => ref_segments(v, four).is_some(),
        17 => ref_segments(v, true).is_some(),
        _ => true,
    }
}

/// `invalid:<flags>:<code>:<value>` for this code and exactly these value octets
fn invalid_carries(got: &str, tc: u8, v: &[u8]) -> bool {
    let p: Vec<&str> = got.split(':').collect();
    p.len() == 4 && p[0] == "invalid" && p[2] == tc.to_string() && p[3] == hex(v)
}

/// RFC 4760: a sequence of (length in bits, ceil(length/8) octets) prefixes, no longer than the family allows
fn plain_prefixes(mut v: &[u8], maxbits: u8) -> bool {
    while !v.is_empty() {
        let l = v[0];
        let n = (l as usize + 7) / 8;
        if l > maxbits || v.len() < 1 + n { return false; }
        v = &v[1 + n..];
    }
    true
}

/// how a value of MP_REACH_NLRI (14) / MP_UNREACH_NLRI (15) stands to RFC 4760:
/// `Short` = shorter than its fixed part (AFI, SAFI[, next-hop length, reserved]): the type's length rule;
/// `Plain` = unmistakably well formed (IPv4/IPv6 unicast, a next hop of 16 or 32 octets, whole prefixes);
/// `Other` = anything else (next-hop length overrunning the value, prefix longer than the family, unknown
///           AFI/SAFI ...): malformed in ways beyond the length rule, or not decidable without the
///           implementation's family table. The property's "malformation" is read as the length rule of the
///           fixed part; whether a receiver rejects an `Other` value when it parses the message or later when
///           it iterates the NLRI is left open, so the oracle accepts both.
#[derive(PartialEq, Clone, Copy, Debug)]
pub(crate) enum Mp { Short, Plain, Other }
pub(crate) fn mp_class(tc: u8, v: &[u8]) -> Mp {
    if tc == 14 {
        if v.len() < 5 { return Mp::Short; }
        let (afi, safi, nh) = (u16::from_be_bytes([v[0], v[1]]), v[2], v[3] as usize);
        if afi == 2 && safi == 1 && (nh == 16 || nh == 32) && v.len() >= 5 + nh && plain_prefixes(&v[5 + nh..], 128) { Mp::Plain } else { Mp::Other }
    } else {
        if v.len() < 3 { return Mp::Short; }
        let (afi, safi) = (u16::from_be_bytes([v[0], v[1]]), v[2]);
        if safi == 1 && ((afi == 1 && plain_prefixes(&v[3..], 32)) || (afi == 2 && plain_prefixes(&v[3..], 128))) { Mp::Plain } else { Mp::Other }
    }
}

fn be32(v: &[u8]) -> u32 { u32::from_be_bytes([v[0], v[1], v[2], v[3]]) }

fn ref_path_text(v: &[u8], four: bool) -> Option<String> {
    let segs = ref_segments(v, four)?;
    let w = if four { 4 } else { 2 };
    let mut t = Vec::new();
    for (ty, a) in &segs {
        if *ty == 2 && !a.is_empty() { for x in a { t.push(format!("a{}", x)); } } else { t.push(format!("s{}/{}:{}", ty, w, nats(a))); }
    }
    Some(join(t))
}

/// reference decoder for a value that satisfies its rule (four-octet session unless stated)
pub(crate) fn ref_decode(code: u8, four: bool, v: &[u8]) -> Option<String> {
    let chunks = |k: usize| v.chunks(k).map(|c| c.to_vec()).collect::<Vec<_>>();
    Some(match code {
        1 => show_v(&V::Origin(v[0])),
        2 => format!("aspath:{}", ref_path_text(v, four)?),
        3 => show_v(&V::NextHop(be32(v))), 4 => show_v(&V::Med(be32(v))), 5 => show_v(&V::LocalPref(be32(v))),
        6 => "atomic".into(),
        7 => if four { show_v(&V::Aggregator(be32(v), be32(&v[4..]))) } else { show_v(&V::Aggregator(u16::from_be_bytes([v[0], v[1]]) as u32, be32(&v[2..]))) },
        8 => show_v(&V::Communities(v.chunks(4).map(be32).collect())),
        9 => show_v(&V::Originator(be32(v))),
        10 => show_v(&V::ClusterList(v.chunks(4).map(be32).collect())),
        16 => show_v(&V::ExtComm(chunks(8))),
        17 => format!("as4path:{}", ref_path_text(v, true)?), // RFC 6793: always four octets wide
        18 => show_v(&V::As4Aggregator(be32(v), be32(&v[4..]))),
        20 => show_v(&V::Connector(be32(v))),
        21 => show_v(&V::AsPathLimit(v[0], be32(&v[1..]))),
        25 => show_v(&V::Ipv6ExtComm(chunks(20))),
        32 => show_v(&V::LargeComm(chunks(12))),
        35 => show_v(&V::Otc(be32(v))),
        128 => show_v(&V::AttrSet(be32(v), v[4..].to_vec())),
        255 => show_v(&V::Reserved(v.to_vec())),
        _ => return None,
    })
}

fn ref_header(flags: u8, code: u8, n: usize) -> Vec<u8> {
    if n > 255 { let l = (n.min(65535) as u16).to_be_bytes(); vec![flags | 0x10, code, l[0], l[1]] } else { vec![flags, code, n as u8] }
}

/// judge an emitted attribute `bytes` for value text `want` (`typed:`-less) of type `code`
fn judge_encoding(code: u8, bytes: &[u8], want_value: Option<&[u8]>, want_hops: Option<&[crate::props::c13::RHop]>) -> Result<(), String> {
    let (fl, tc, v, rest) = ref_split(bytes).ok_or("emitted bytes are not one complete attribute")?;
    if !rest.is_empty() { return Err("bytes after the declared length".into()); }
    if tc != code { return Err(format!("type code {} written for {}", tc, code)); }
    let cf = canon_flags(code).unwrap();
    let ext = v.len() > 255;
    if fl != cf | if ext { 0x10 } else { 0 } {
        return Err(format!("flags {:#04x}: expected canonical {:#04x} with EXTENDED_LEN {}", fl, cf, if ext { "set" } else { "clear" }));
    }
    if let Some(w) = want_value { if v != w { return Err("value bytes differ from the reference encoding".into()); } }
    if let Some(h) = want_hops {
        let segs = ref_segments(v, true).ok_or("AS path value is not a valid four-octet AS_PATH")?;
        if ref_hops(&segs) != h { return Err("AS path value carries different hops".into()); }
    }
    Ok(())
}

// ---------------------------------------------------------------- generators
const COUNTS4: &[usize] = &[0, 1, 2, 63, 64, 65, 300];
fn rec_list(rng: &mut Rng, k: usize) -> Vec<Vec<u8>> {
    let edge = 255 / k;
    let n = match rng.below(6) { 0 => 0, 1 => 1, 2 => edge, 3 => edge + 1, 4 => rng.usize(0, 4), _ => rng.usize(0, 3 * edge) };
    // one time in four elements repeat earlier ones (adjacent or apart): a list attribute is a sequence, a decoder
    // must not merge, sort or drop repeated values (round-5 seed: LARGE_COMMUNITIES de-duplicated on parse)
    let dup = rng.chance(1, 4);
    let mut v: Vec<Vec<u8>> = Vec::with_capacity(n);
    for i in 0..n {
        if dup && i > 0 && rng.chance(1, 2) { let j = if rng.chance(1, 2) { i - 1 } else { rng.usize(0, i - 1) }; let e = v[j].clone(); v.push(e); }
        else { v.push(rng.bytes(k)); }
    }
    v
}
fn u32_list(rng: &mut Rng) -> Vec<u32> {
    let n = if rng.chance(1, 2) { *rng.pick(COUNTS4) } else { rng.usize(0, 130) };
    (0..n).map(|_| if rng.chance(1, 8) { *rng.pick(&[0u32, u32::MAX, 0xFFFF0000, 0xFFFFFF01]) } else { rng.u32() }).collect()
}
fn blob(rng: &mut Rng, edge: usize) -> Vec<u8> {
    let n = match rng.below(6) { 0 => 0, 1 => edge, 2 => edge + 1, 3 => edge.saturating_sub(1), 4 => rng.usize(0, 8), _ => rng.usize(0, 600) };
    rng.bytes(n)
}
fn api_path(rng: &mut Rng) -> Vec<THop> { parse_api_hops(&gen_hop_path(rng)).unwrap() }

pub(crate) fn gen_value(rng: &mut Rng, kind: u64) -> V {
    match kind {
        0 => V::Origin(if rng.chance(1, 2) { rng.below(4) as u8 } else { rng.u8() }),
        1 => V::AsPath(api_path(rng)),
        2 => V::NextHop(rng.u32()), 3 => V::Med(rng.edgy(u32::MAX as u64) as u32), 4 => V::LocalPref(rng.edgy(u32::MAX as u64) as u32),
        5 => V::Atomic,
        6 => V::Aggregator(rng.u32(), rng.u32()),
        7 => V::Communities(u32_list(rng)),
        8 => V::Originator(rng.u32()),
        9 => V::ClusterList(u32_list(rng)),
        10 => V::ExtComm(rec_list(rng, 8)),
        11 => V::As4Path(api_path(rng)),
        12 => V::As4Aggregator(rng.u32(), rng.u32()),
        13 => V::Connector(rng.u32()),
        14 => V::AsPathLimit(rng.u8(), rng.u32()),
        15 => V::Ipv6ExtComm(rec_list(rng, 20)),
        16 => V::LargeComm(rec_list(rng, 12)),
        17 => V::Otc(rng.u32()),
        18 => V::AttrSet(rng.u32(), blob(rng, 251)),
        _ => V::Reserved(blob(rng, 255)),
    }
}

/// reference encoding of a non-path value (paths: via the reference AS path encoder of C13)
fn ref_encode_attr(v: &V, rng: Option<&mut Rng>) -> Vec<u8> {
    let value = match v {
        V::AsPath(h) | V::As4Path(h) => {
            // one segment per hop run, at most 255 per segment
            let mut segs: Vec<(u8, Vec<u32>)> = Vec::new();
            let mut run: Vec<u32> = Vec::new();
            let flush = |run: &mut Vec<u32>, segs: &mut Vec<(u8, Vec<u32>)>| { for c in run.chunks(255) { segs.push((2, c.to_vec())); } run.clear(); };
            for x in h { match x { THop::Asn(a) => run.push(*a), THop::Seg(t, _, a) => { flush(&mut run, &mut segs); segs.push((*t, a.iter().take(255).copied().collect())); } } }
            flush(&mut run, &mut segs);
            crate::props::c13::ref_encode(&segs, true)
        }
        _ => v.ref_value().unwrap(),
    };
    let mut fl = canon_flags(v.code()).unwrap();
    if let Some(rng) = rng {
        // flag noise a receiver must tolerate: partial bit, low bits, EXTENDED_LEN on a short value
        if rng.chance(1, 4) { fl |= 0x20; }
        if rng.chance(1, 6) { fl ^= *rng.pick(&[0x80u8, 0x40, 0x01, 0x0f]); }
        if rng.chance(1, 5) && value.len() <= 255 {
            let mut b = vec![fl | 0x10, v.code()]; b.extend((value.len() as u16).to_be_bytes()); b.extend(&value); return b;
        }
    }
    let mut b = ref_header(fl, v.code(), value.len());
    b.extend(&value);
    b
}

fn update_with_attrs(attrs: &[u8]) -> Vec<u8> {
    let mut m = vec![0xffu8; 16];
    let total = 19 + 2 + 2 + attrs.len();
    m.extend((total as u16).to_be_bytes());
    m.push(2);
    m.extend([0, 0]);
    m.extend((attrs.len() as u16).to_be_bytes());
    m.extend(attrs);
    m
}

impl Prop for C04 {
    fn gen(&self, rng: &mut Rng, tier: Tier) -> Vec<String> {
        let mut v = Vec::new();
        let scale = if tier == Tier::Thorough { 100 } else { 1 };
        // every value length 0..=300 against every type's rule (four-octet session);
        // for AGGREGATOR also the two-octet session
        for (code, fl) in TABLE {
            for n in 0..=300usize {
                // every third case arrives with flag noise (partial bit, optional/transitive flipped, low bits)
                let noise = if rng.chance(1, 3) { *rng.pick(&[0x20u8, 0x80, 0x40, 0x01, 0x0f, 0xe0]) } else { 0 };
                let mut b = ref_header(*fl ^ noise, *code, n);
                b.extend(rng.bytes(n));
                v.push(format!("dec 4 {}", hex(&b)));
                if *code == 7 && n <= 12 { v.push(format!("dec 2 {}", hex(&b))); }
            }
        }
        // a WELL-FORMED AS_PATH value of every length 0..=300 that has one (four-octet: even lengths; two-octet:
        // even lengths), in both session widths, for AS_PATH and AS4_PATH - the random bytes above are nearly all
        // invalid for these two kinds
        for n in (0..=300usize).step_by(2) {
            let mut v4: Vec<u8> = Vec::new();
            if n >= 2 {
                let body = n - 2 - if n % 4 == 0 { 2 } else { 0 };          // n = 2 + 4a  or  2 + 4a + 2 (an empty AS_SET after it)
                let a = body / 4;
                v4.extend([2u8, a as u8]); for i in 0..a { v4.extend((64496u32 + i as u32).to_be_bytes()); }
                if n % 4 == 0 { v4.extend([1u8, 0]); }
            }
            let mut v2: Vec<u8> = Vec::new();
            if n >= 2 { let a = (n - 2) / 2; v2.extend([if n % 3 == 0 { 3u8 } else { 2 }, a as u8]); for i in 0..a { v2.extend((64496u16 + i as u16).to_be_bytes()); } }
            for (code, fl) in [(2u8, 0x40u8), (17, 0xC0)] {
                let mut b = ref_header(fl, code, v4.len()); b.extend(&v4);
                v.push(format!("dec 4 {}", hex(&b)));
                v.push(format!("dec 2 {}", hex(&b)));
                let mut b = ref_header(fl, code, v2.len()); b.extend(&v2);
                v.push(format!("dec 2 {}", hex(&b)));
            }
        }
        // values past 65535 bytes: the length field saturates (compose_len still equals the bytes written; no
        // decoding is demanded of them)
        v.push(format!("enc reserved:{}", hex(&vec![0x5au8; 65536])));
        v.push(format!("enc attrset:65536:{}", hex(&vec![0xa5u8; 65540])));
        // list-valued kinds at every count around the 255/256-byte boundary
        for n in 0..=70usize { v.push(format!("enc communities:{}", nats(&(0..n as u32).map(|i| i * 65537 + 1).collect::<Vec<_>>())));
                               v.push(format!("enc clusterlist:{}", nats(&(0..n as u32).map(|i| 0xC0000200 + i).collect::<Vec<_>>()))); }
        for n in 0..=34usize { v.push(format!("enc extcomm:{}", recs(&(0..n).map(|i| vec![i as u8; 8]).collect::<Vec<_>>()))); }
        for n in 0..=23usize { v.push(format!("enc largecomm:{}", recs(&(0..n).map(|i| vec![i as u8; 12]).collect::<Vec<_>>()))); }
        for n in 0..=14usize { v.push(format!("enc ipv6extcomm:{}", recs(&(0..n).map(|i| vec![i as u8; 20]).collect::<Vec<_>>()))); }
        for n in 245..=262usize { v.push(format!("enc attrset:65536:{}", hex(&vec![0xabu8; n]))); v.push(format!("enc reserved:{}", hex(&vec![0xcdu8; n]))); }
        for n in 58..=68usize {   // AS path value = 2 + 4n: crosses 255 at n = 64
            let h = join((0..n).map(|i| format!("a{}", 64496 + i)).collect());
            v.push(format!("enc aspath:{}", h)); v.push(format!("enc as4path:{}", h));
        }
        // AS paths: EVERY run length of plain ASN hops 0..=1100 (the 255-ASN segment boundary and all its
        // multiples: value_len / compose_len must agree with the bytes written at each of them), alternating
        // AS_PATH / AS4_PATH, and two runs separated by an AS_SET for a third of them
        for n in 0..=1100usize {
            let run = |k: usize, base: usize| join((0..k).map(|i| format!("a{}", 64496 + (base + i) % 1000)).collect());
            let h = if n % 3 == 2 && n >= 2 { format!("{},s1/4:65000.65001,{}", run(n / 2, 0), run(n - n / 2, 7)) } else { run(n, 0) };
            if h.is_empty() { continue; }
            v.push(format!("enc {}:{}", if n % 2 == 0 { "aspath" } else { "as4path" }, h));
        }
        // AS paths over everything the public API can put into a HopPath: a non-empty AS_SEQUENCE held as ONE
        // segment hop (decoded as its ASNs: the normal form) and two-octet segment hops; the segment-hop sizes
        // that take the value across 255 bytes (2 + 4n: n = 63 / 64) and the 254/255-ASN boundary
        for n in [1usize, 2, 62, 63, 64, 254, 255] {
            for w in [4, 2] {
                for ty in [2u8, 1, 3] {
                    let seg = format!("s{}/{}:{}", ty, w, (0..n).map(|i| (64000 + i).to_string()).collect::<Vec<_>>().join("."));
                    v.push(format!("enc aspath:{}", seg));
                    v.push(format!("enc as4path:a1,{},a7", seg));
                }
            }
        }
        for i in 0..(120 * scale) {
            let h = gen_hop_path_g(rng);
            if parse_api_hops(&h).map(|x| x.iter().any(|y| matches!(y, THop::Seg(_, _, a) if a.len() > 255))).unwrap_or(true) { continue; }
            v.push(format!("enc {}:{}", if i % 2 == 0 { "aspath" } else { "as4path" }, h));
        }
        // random values of every kind
        for i in 0..(1500 * scale) {
            let val = gen_value(rng, (i % 20) as u64);
            v.push(format!("enc {}", req_v(&val)));
            // the reference encoding of the same value, with tolerated flag noise and trailing bytes, decoded
            if !matches!(&val, V::AsPath(h) | V::As4Path(h) if h.iter().any(|x| matches!(x, THop::Seg(_, _, a) if a.len() > 255))) {
                let mut b = ref_encode_attr(&val, Some(rng));
                if b.len() < 66000 {
                    if rng.chance(1, 3) { let k = rng.usize(1, 6); b.extend(rng.bytes(k)); }
                    v.push(format!("dec 4 {}", hex(&b)));
                    if rng.chance(1, 6) { v.push(format!("dec 2 {}", hex(&b))); }
                }
            }
        }
        // two-octet AS paths and aggregators
        for _ in 0..(150 * scale) {
            let segs = crate::props::c13::gen_segments(rng, true);
            let val = crate::props::c13::ref_encode(&segs, false);
            let code = *rng.pick(&[2u8, 2, 2, 17]);
            let mut b = ref_header(canon_flags(code).unwrap(), code, val.len()); b.extend(&val);
            v.push(format!("dec 2 {}", hex(&b)));
            v.push(format!("dec 4 {}", hex(&b)));
        }
        // unknown type codes (14 and 15 included), truncations, random bytes
        for _ in 0..(300 * scale) {
            let code = if rng.chance(1, 3) { *rng.pick(&[14u8, 15]) } else { rng.u8() };
            let n = rng.usize(0, 12);
            let fl = if rng.chance(1, 2) { *rng.pick(&[0x80u8, 0xC0, 0x40, 0x90, 0xD0]) } else { rng.u8() };
            let mut b = vec![fl, code];
            if fl & 0x10 != 0 { b.extend((n as u16).to_be_bytes()); } else { b.push(n as u8); }
            b.extend(rng.bytes(n));
            if rng.chance(1, 4) { let k = rng.usize(0, b.len()); b.truncate(k); }
            v.push(format!("dec 4 {}", hex(&b)));
        }
        // several attributes in a row (typed, invalid, unrecognised), sometimes cut short
        for _ in 0..(300 * scale) {
            let mut sec = Vec::new();
            for _ in 0..rng.usize(0, 6) {
                match rng.below(6) {
                    0 => { let (code, fl) = *rng.pick(TABLE); let n = rng.usize(0, 9); sec.extend([fl, code, n as u8]); sec.extend(rng.bytes(n)); }
                    1 => { let n = rng.usize(0, 6); sec.extend([rng.u8() & 0xef, rng.u8(), n as u8]); sec.extend(rng.bytes(n)); }
                    _ => { let k = rng.below(20); let val = gen_value(rng, k);
                           if !matches!(&val, V::AsPath(h) | V::As4Path(h) if h.iter().any(|x| matches!(x, THop::Seg(_, _, a) if a.len() > 255))) {
                               let e = ref_encode_attr(&val, Some(rng)); if e.len() < 700 { sec.extend(e); } } }
                }
            }
            if rng.chance(1, 8) && !sec.is_empty() { let k = rng.usize(0, sec.len() - 1); sec.truncate(k); }
            v.push(format!("decall {} {}", if rng.chance(1, 5) { 2 } else { 4 }, hex(&sec)));
        }
        // message level: MP_REACH_NLRI / MP_UNREACH_NLRI of every short length, alone and among other attributes
        for code in [14u8, 15] { for n in 0..=9usize { for ext in [false, true] {
            let mut a = if ext { let mut h = vec![0x90, code]; h.extend((n as u16).to_be_bytes()); h } else { vec![0x80, code, n as u8] };
            let mut val = vec![0u8, 1, 1, 0, 0, 0, 0, 0, 0]; val.truncate(n); a.extend(&val);
            v.push(format!("msg {}", hex(&a)));
            let mut b = vec![0x40, 1, 1, 0]; b.extend(&a); b.extend([0x40, 5, 4, 0, 0, 0, 100]);
            v.push(format!("msg {}", hex(&b)));
        } } }
        // multiprotocol attributes that are unmistakably well formed (the message must be accepted) and ones
        // malformed beyond the length rule of the fixed part (next-hop length overrunning the value, a prefix
        // longer than the family allows or cut short, unknown AFI: accepted by this implementation, which
        // parses the NLRI lazily; the oracle takes either outcome), alone and among other attributes
        {
            let nh16: Vec<u8> = (0..16u8).collect();
            let mut reach = vec![0u8, 2, 1, 16]; reach.extend(&nh16); reach.push(0);
            let mut reach_p = reach.clone(); reach_p.extend([32, 0x20, 0x01, 0x0d, 0xb8, 0]);
            let mut reach_ll = vec![0u8, 2, 1, 32]; reach_ll.extend(&nh16); reach_ll.extend(&nh16); reach_ll.extend([0, 64, 0x20, 0x01, 0x0d, 0xb8, 0, 1, 0, 2]);
            let vals14: Vec<Vec<u8>> = vec![reach.clone(), reach_p.clone(), reach_ll,
                vec![0, 1, 1, 4, 0], vec![0, 1, 1, 255, 0], vec![0, 2, 1, 16, 0, 0, 0], { let mut x = reach.clone(); x.extend([129, 0]); x },
                { let mut x = reach.clone(); x.extend([64, 0x20]); x }, vec![0, 9, 9, 0, 0, 1, 2, 3]];
            let vals15: Vec<Vec<u8>> = vec![vec![0, 1, 1], vec![0, 2, 1], vec![0, 1, 1, 24, 10, 0, 0], vec![0, 2, 1, 48, 0x20, 0x01, 0x0d, 0xb8, 0, 1],
                vec![0, 1, 1, 33], vec![0, 1, 1, 24, 10], vec![0, 2, 1, 200, 1], vec![0, 7, 7, 1]];
            for (code, vals) in [(14u8, &vals14), (15u8, &vals15)] {
                for val in vals.iter() {
                    let mut a = vec![0x80, code, val.len() as u8]; a.extend(val);
                    v.push(format!("msg {}", hex(&a)));
                    let mut b = vec![0x40, 1, 1, 0]; b.extend(&a); b.extend([0x40, 5, 3, 0, 0, 100]);   // + a LOCAL_PREF of 3 bytes (invalid, not fatal)
                    v.push(format!("msg {}", hex(&b)));
                }
            }
            // the same MP attribute twice
            let mut twice = vec![0x80, 15, 3, 0, 1, 1]; twice.extend([0x80, 15, 3, 0, 2, 1]);
            v.push(format!("msg {}", hex(&twice)));
            // an MP attribute twice (and both kinds together), ONE occurrence shorter than its fixed part:
            // the malformation of any occurrence rejects the message, wherever it stands
            for (code, good, fixed) in [(14u8, &reach_p, 5usize), (15u8, &vals15[2], 3usize)] {
                for n in 0..fixed { for short_first in [false, true] { for between in [false, true] {
                    let mut g = vec![0x80, code, good.len() as u8]; g.extend(good.iter());
                    let mut sh = vec![0x80, code, n as u8]; sh.extend(good.iter().take(n));
                    let mid: Vec<u8> = if between { vec![0x40, 1, 1, 0] } else { vec![] };
                    let mut m = Vec::new();
                    if short_first { m.extend(&sh); m.extend(&mid); m.extend(&g); } else { m.extend(&g); m.extend(&mid); m.extend(&sh); }
                    v.push(format!("msg {}", hex(&m)));
                    // ... and next to a well-formed attribute of the other kind
                    let (oc, og) = if code == 14 { (15u8, &vals15[2]) } else { (14u8, &reach_p) };
                    let mut o = vec![0x80, oc, og.len() as u8]; o.extend(og.iter());
                    let mut m2 = o.clone(); m2.extend(&m);
                    v.push(format!("msg {}", hex(&m2)));
                } } }
            }
        }
        for _ in 0..(300 * scale) {
            let mut sec = Vec::new();
            for _ in 0..rng.usize(0, 4) {
                match rng.below(5) {
                    0 => { let code = *rng.pick(&[14u8, 15]); let n = rng.usize(0, 8); sec.extend([0x80, code, n as u8]); let mut val = vec![0, 2, 1]; val.extend(rng.bytes(8)); val.truncate(n); sec.extend(val); }
                    1 => { let (code, fl) = *rng.pick(TABLE); let n = rng.usize(0, 9); sec.extend([fl, code, n as u8]); sec.extend(rng.bytes(n)); }
                    2 => { let k = rng.below(20); let val = gen_value(rng, k); if !matches!(val, V::AsPath(_) | V::As4Path(_)) { let e = ref_encode_attr(&val, None); if e.len() < 600 { sec.extend(e); } } }
                    3 => { sec.extend([rng.u8() & 0xef, rng.u8(), 2, 1, 2]); }
                    _ => { let k = rng.usize(1, 3); sec.extend(rng.bytes(k)); }
                }
            }
            v.push(format!("msg {}", hex(&sec)));
        }
        v
    }

    fn exec(&self, line: &str) -> String {
        let w: Vec<&str> = line.split(' ').collect();
        match w.as_slice() {
            ["enc", t] => {
                let Some(val) = parse_req(t) else { return "bad-op".into() };
                let pa = to_rc(&val);
                let bytes = compose(&pa);
                let len = pa.compose_len();
                // (tie coverage) PathAttribute::type_code() / default_flags(): what the value says about itself
                // is what its encoding carries (the Extended Length bit aside, which depends on the size)
                if bytes.len() >= 2 && (pa.type_code() != bytes[1] || u8::from(pa.default_flags()) != bytes[0] & !0x10) {
                    return format!("type_code()={} default_flags()={:#04x} but the encoding starts {}", pa.type_code(), u8::from(pa.default_flags()), hex(&bytes[..2]));
                }
                let (dec, same) = {
                    let v = bytes.clone();
                    let mut it = PathAttributes::new(Parser::from_ref(&v), PduParseInfo::modern());
                    match it.next() {
                        Some(Ok(wf)) => match wf.to_owned() {
                            Ok(back) => (show_rc(&back), back == pa && it.parser.remaining() == 0 && !matches!(back, PathAttribute::Invalid(..) | PathAttribute::Unimplemented(_))),
                            Err(_) => ("owned-err".to_string(), false),
                        },
                        _ => ("err".to_string(), false),
                    }
                };
                format!("ok {} len={} dec={} same={}", hex(&bytes), len, dec, same)
            }
            ["dec", ws, hx] => {
                let (Some(four), Some(bs)) = (parse_w(ws), unhex(hx)) else { return "bad-op".into() };
                let ppi = if four { PduParseInfo::modern() } else { PduParseInfo::legacy() };
                let mut it = PathAttributes::new(Parser::from_ref(&bs), ppi);
                match it.next() {
                    None | Some(Err(_)) => "err".into(),
                    Some(Ok(wf)) => {
                        let rest = it.parser.remaining();
                        match wf.to_owned() {
                            Err(_) => format!("ok owned-err rest={} re=-", rest),
                            Ok(pa) => {
                                let re = match &pa {
                                    PathAttribute::Invalid(..) | PathAttribute::Unimplemented(_) => "-".to_string(),
                                    _ => catch(|| hex(&compose(&pa))),
                                };
                                // the same attribute as the FIRST attribute of an accepted UPDATE, read back through
                                // `UpdateMessage::path_attributes()`: decoding must not depend on the route by which the
                                // octets reach `WireformatPathAttribute::parse` (round-7 seed: the attribute iterator of an
                                // accepted message skipped `validate`, so a malformed value came out typed there only)
                                let one = &bs[..bs.len() - rest];
                                if one.len() <= 4000 {
                                    let m = update_with_attrs(one);
                                    let sc = if four { SessionConfig::modern() } else { SessionConfig::legacy() };
                                    if let Ok(u) = UpdateMessage::from_octets(&m[..], &sc) {
                                        let via = match u.path_attributes() {
                                            Ok(mut it) => match it.next() {
                                                Some(Ok(wf)) => match wf.to_owned() { Ok(p2) => show_rc(&p2), Err(_) => "owned-err".to_string() },
                                                Some(Err(_)) => "item-err".to_string(),
                                                None => "none".to_string(),
                                            },
                                            Err(_) => "iter-err".to_string(),
                                        };
                                        if via != show_rc(&pa) { return format!("VIA-UPDATE-DIFFERS alone={} in-update={}", show_rc(&pa), via); }
                                    }
                                }
                                format!("ok {} rest={} re={}", show_rc(&pa), rest, re)
                            }
                        }
                    }
                }
            }
            ["decall", ws, hx] => {
                let (Some(four), Some(bs)) = (parse_w(ws), unhex(hx)) else { return "bad-op".into() };
                let ppi = if four { PduParseInfo::modern() } else { PduParseInfo::legacy() };
                let mut out = Vec::new();
                for pa in PathAttributes::new(Parser::from_ref(&bs), ppi).take(100_000) {
                    match pa {
                        Err(_) => return "err".into(),
                        Ok(wf) => out.push(match wf.to_owned() { Ok(pa) => show_rc(&pa), Err(_) => "owned-err".into() }),
                    }
                }
                format!("ok {}", if out.is_empty() { "-".to_string() } else { out.join("|") })
            }
            ["msg", hx] => {
                let Some(bs) = unhex(hx) else { return "bad-op".into() };
                if bs.len() > 4000 { return "bad-op".into(); }
                let m = update_with_attrs(&bs);
                match UpdateMessage::from_octets(&m[..], &SessionConfig::modern()) { Ok(_) => "ok".into(), Err(_) => "err".into() }
            }
            _ => "bad-op".into(),
        }
    }

    fn oracle(&self, line: &str, reply: &str) -> Result<(), String> {
        let w: Vec<&str> = line.split(' ').collect();
        if reply == "bad-op" { return Ok(()); }
        match w.as_slice() {
            ["enc", t] => {
                let val = parse_req(t).ok_or("unparsable request")?;
                if reply == "panic" { return Err("composing a typed attribute value panicked".into()); }
                let bytes = unhex(reply.split(' ').nth(1).ok_or("short reply")?).ok_or("hex")?;
                let len: usize = field(reply, "len=").and_then(|x| x.parse().ok()).ok_or("no len")?;
                if len != bytes.len() { return Err(format!("compose_len() = {} but {} bytes were written", len, bytes.len())); }
                let hops = match &val { V::AsPath(h) | V::As4Path(h) => Some(erase_flat(h)), _ => None };
                let rv = val.ref_value();
                if rv.as_ref().map(|v| v.len()).unwrap_or(0) > 65535 { return Ok(()); }
                judge_encoding(val.code(), &bytes, rv.as_deref(), hops.as_deref())?;
                // the decoded value: the original – for a hop path, the hop sequence it stands for (an AS_SEQUENCE
                // held as one segment hop arrives as its ASNs; the storage width of segment hops is private)
                let want = format!("typed:{}", show_v(&normal_form(&val)));
                if field(reply, "dec=") != Some(want.as_str()) { return Err(format!("decoding the encoding gives `{}`", field(reply, "dec=").unwrap_or("?").chars().take(120).collect::<String>())); }
                // `==`: demanded whenever the value is its own hop sequence (Rust's == is blind to the storage
                // width); for a hop path holding an AS_SEQUENCE as one segment hop the decoded value is the
                // normal form and what `==` says about the pair is compared with the model only
                let flat = match &val { V::AsPath(h) | V::As4Path(h) => is_flat(h), _ => true };
                if flat && field(reply, "same=") != Some("true") { return Err("decoded value is not == the original".into()); }
                Ok(())
            }
            ["dec", ws, hx] => {
                let four = parse_w(ws).ok_or("w")?; let bs = unhex(hx).ok_or("hex")?;
                let Some((fl, tc, v, rest)) = ref_split(&bs) else {
                    return if reply == "err" { Ok(()) } else { Err("an attribute cut short was accepted".into()) };
                };
                if reply.starts_with("VIA-UPDATE-DIFFERS") { return Err(format!("the attribute decodes differently inside an accepted UPDATE: {}", reply)); }
                if !reply.starts_with("ok ") { return Err(format!("a complete attribute gave `{}`", reply)); }
                if field(reply, "rest=") != Some(rest.len().to_string().as_str()) { return Err("wrong number of bytes consumed".into()); }
                let got = reply.split(' ').nth(1).unwrap_or("");
                // unrecognised type codes are the subject of C07: compared with the model only
                let Some(cf) = canon_flags(tc) else { return Ok(()) };
                if !ref_rule(tc, four, v) {
                    // surfaced as invalid, carrying the raw value bytes (which flags the Invalid carries the
                    // property does not say)
                    return if invalid_carries(got, tc, v) { Ok(()) } else {
                        Err(format!("value of {} bytes violates the length rule of type {} but was surfaced as `{}`", v.len(), tc, got.chars().take(60).collect::<String>())) };
                }
                let want = format!("typed:{}", ref_decode(tc, four, v).ok_or("ref")?);
                if got != want {
                    // a well-formed value under flags that are not the type's (optional/transitive bits differ):
                    // the property speaks about canonical encodings and about length rules; a receiver that
                    // surfaces such an attribute as invalid (RFC 7606 3.c) conforms as well
                    if fl & 0xC0 != cf & 0xC0 && invalid_carries(got, tc, v) { return Ok(()); }
                    return Err(format!("well-formed value of type {} decoded as `{}`", tc, got.chars().take(80).collect::<String>()));
                }
                // the decoded value re-encodes canonically
                let re = unhex(field(reply, "re=").ok_or("no re")?).ok_or("re-encoding failed")?;
                if v.len() <= 65535 {
                    if tc == 2 || tc == 17 {
                        let segs = ref_segments(v, if tc == 2 { four } else { true }).ok_or("ref")?;
                        judge_encoding(tc, &re, None, Some(&ref_hops(&segs)))?;
                    } else if tc == 7 && !four {
                        let asn = u16::from_be_bytes([v[0], v[1]]) as u32;
                        let mut want = asn.to_be_bytes().to_vec(); want.extend(&v[2..]);
                        judge_encoding(tc, &re, Some(&want), None)?;
                    } else {
                        judge_encoding(tc, &re, Some(v), None)?;
                    }
                }
                Ok(())
            }
            ["decall", ws, hx] => {
                let four = parse_w(ws).ok_or("w")?; let bs = unhex(hx).ok_or("hex")?;
                let mut rest: &[u8] = &bs;
                let mut want = Vec::new();
                while !rest.is_empty() {
                    let Some((fl, tc, v, r)) = ref_split(rest) else {
                        return if reply == "err" { Ok(()) } else { Err("a section with an attribute cut short was accepted".into()) };
                    };
                    want.push(match canon_flags(tc) {
                        None => "?".to_string(),                                     // C07's subject
                        Some(_) if !ref_rule(tc, four, v) => format!("invalid:*:{}:{}", tc, hex(v)),
                        Some(cf) if fl & 0xC0 != cf & 0xC0 => format!("typed-or-invalid:{}:{}:{}", tc, hex(v), ref_decode(tc, four, v).ok_or("ref")?),
                        Some(_) => format!("typed:{}", ref_decode(tc, four, v).ok_or("ref")?),
                    });
                    rest = r;
                }
                let got: Vec<&str> = match reply.strip_prefix("ok ") { Some("-") => vec![], Some(t) => t.split('|').collect(), None => return Err(format!("complete attributes gave `{}`", reply)) };
                if got.len() != want.len() { return Err(format!("{} attributes on the wire, {} decoded", want.len(), got.len())); }
                for (g, w) in got.iter().zip(&want) {
                    if let Some(r) = w.strip_prefix("invalid:*:") {
                        let p: Vec<&str> = g.split(':').collect();
                        if p.len() == 4 && p[0] == "invalid" && format!("{}:{}", p[2], p[3]) == r { continue; }
                        return Err(format!("attribute decoded as `{}` although its value violates the type's length rule (expected invalid with the raw value)", g.chars().take(60).collect::<String>()));
                    }
                    if let Some(r) = w.strip_prefix("typed-or-invalid:") {
                        let mut it = r.splitn(3, ':');
                        let (tc, hx, txt) = (it.next().unwrap_or(""), it.next().unwrap_or(""), it.next().unwrap_or(""));
                        let p: Vec<&str> = g.split(':').collect();
                        if *g == format!("typed:{}", txt) || (p.len() == 4 && p[0] == "invalid" && p[2] == tc && p[3] == hx) { continue; }
                        return Err(format!("attribute decoded as `{}`, reference says `typed:{}`", g.chars().take(60).collect::<String>(), txt.chars().take(60).collect::<String>()));
                    }
                    if w != "?" && g != w { return Err(format!("attribute decoded as `{}`, reference says `{}`", g.chars().take(60).collect::<String>(), w.chars().take(60).collect::<String>())); }
                }
                Ok(())
            }
            ["msg", hx] => {
                let bs = unhex(hx).ok_or("hex")?;
                let mut rest: &[u8] = &bs;
                // Some(true) = must be accepted, Some(false) = must be rejected, None = the property is silent
                let mut must_reject = false;
                let mut silent = false;
                let mut seen: Vec<u8> = Vec::new();
                while !rest.is_empty() {
                    match ref_split(rest) {
                        None => { must_reject = true; break; }       // an attribute cut short: the section does not parse
                        Some((_, tc, v, r)) => {
                            if tc == 14 || tc == 15 {
                                match mp_class(tc, v) {
                                    Mp::Short => { must_reject = true; break; }
                                    Mp::Plain => {}
                                    Mp::Other => silent = true,
                                }
                            }
                            // the same attribute twice (RFC 7606 3.g) is nothing the property speaks about
                            if seen.contains(&tc) { silent = true; }
                            seen.push(tc);
                            rest = r;
                        }
                    }
                }
                match (must_reject, silent, reply) {
                    (true, _, "err") => Ok(()),
                    (true, _, _) => Err(format!("an MP_REACH_NLRI / MP_UNREACH_NLRI shorter than its fixed part (or an attribute cut short) did not reject the message: `{}`", reply)),
                    (false, true, "ok") | (false, true, "err") => Ok(()),
                    (false, false, "ok") => Ok(()),
                    (false, _, _) => Err(format!("an UPDATE whose attributes are complete (length-rule violations are to be surfaced as invalid, not to fail the message) gave `{}`", reply)),
                }
            }
            _ => Ok(()),
        }
    }

    fn nontrivial(&self, _line: &str, reply: &str) -> bool { reply.starts_with("ok") }

    fn class(&self, line: &str, reply: &str) -> String {
        let mut it = line.split(' ');
        let op = it.next().unwrap_or("");
        match op {
            "enc" => {
                let kind = it.next().unwrap_or("").split(':').next().unwrap_or("");
                let ext = reply.split(' ').nth(1).and_then(unhex).map(|b| b.first().map(|f| f & 0x10 != 0).unwrap_or(false));
                format!("enc:{}:{}", kind, match ext { Some(true) => "ext", Some(false) => "short", None => reply })
            }
            "dec" => {
                let w = it.next().unwrap_or("");
                let code = it.next().and_then(unhex).and_then(|b| b.get(1).copied()).map(|c| c.to_string()).unwrap_or("-".into());
                let out = reply.split(' ').nth(1).unwrap_or(reply).split(':').next().unwrap_or("");
                format!("dec{}:code{}:{}", w, if canon_flags(code.parse().unwrap_or(0)).is_some() || code == "14" || code == "15" { code } else { "other".into() }, out)
            }
            "decall" => {
                let w = it.next().unwrap_or("");
                match reply.strip_prefix("ok ") {
                    Some("-") => format!("decall{}:0", w),
                    Some(t) => { let n = t.split('|').count(); format!("decall{}:{}", w, if n > 3 { ">3".to_string() } else { n.to_string() }) }
                    None => format!("decall{}:{}", w, reply),
                }
            }
            "msg" => {
                // which kind of multiprotocol attribute the section holds (worst first)
                let bs = it.next().and_then(unhex).unwrap_or_default();
                let mut rest: &[u8] = &bs;
                let (mut short, mut other, mut plain) = (false, false, false);
                while let Some((_, tc, v, r)) = ref_split(rest) {
                    if tc == 14 || tc == 15 { match mp_class(tc, v) { Mp::Short => short = true, Mp::Other => other = true, Mp::Plain => plain = true } }
                    rest = r;
                    if rest.is_empty() { break; }
                }
                format!("msg:{}:{}", if short { "mp-short" } else if other { "mp-other" } else if plain { "mp-plain" } else { "no-mp" }, reply)
            }
            _ => format!("{}:{}", op, reply),
        }
    }
}
