//! C06: UpdateBuilder emits well-formed, size-bounded PDUs that conserve its input.
//!
//! Request line:
//!   `<op> <fam> wd <W> ann <A> nh <kind> attrs <len>`
//!   op   = split (into_messages) | iter (into_pdu_iter) | take (take_message) | single (into_message)
//!   fam  = one of the 13 families v4u v4m v4mpls v4vpn v4rt v4fs v6u v6m v6mpls v6vpn v6fs vpls evpn,
//!          with the suffix `a` for its ADD-PATH variant (v4ua, v6mplsa, evpna, ...): 26 NLRI types
//!   W    = `-` (no MP_UNREACH builder) | `e` (add_withdrawals_from_pdu of a foreign-family PDU: adds nothing) | tok+
//!   A    = `-` | tok+            tok = <size> | <size>x<count>   (encoded NLRI size in bytes)
//!          value-carrying lines: every NLRI token is `=<hex>` | `=<hex>x<count>`, the octets of the NLRI (path id
//!          first for an ADD-PATH type); the value is made by the NLRI type's own parser from exactly these octets.
//!          A line is value-carrying when any of its tokens starts with `=` (then all NLRI tokens must be values).
//!   kind = `-` (family default, set_nexthop not called) | v4 | m4 | v6 | m6 | ll | ll2 | vpn4 | vpn6 | empty | unimpl
//!          | llx (set_nexthop(Ipv6LL(g, old)) then set_nexthop_ll_addr(new): the link-local half is replaced)
//!          | ll3 (set_nexthop_ll_addr alone) | v4ll (set_nexthop(IPv4) then set_nexthop_ll_addr: no such next hop)
//!          | m6ll (set_nexthop(Multicast(IPv6)) then set_nexthop_ll_addr: refused, update_builder.rs:185)
//!          | pll | pv6 | pv6ll: the calls come AFTER the announcements were added: set_nexthop_ll_addr alone (next to
//!            the family's default next hop), set_nexthop(Unicast(IPv6)), both
//!   len  = total encoded size of the (non-MP) path attributes, 0 or >= 3; `<len>+mp14`, `<len>+mp15`, `<len>+mp`:
//!          the attribute map additionally holds a raw (Unimplemented) copy of MP_REACH_NLRI / MP_UNREACH_NLRI / both,
//!          put there through the public PaMap::add_attribute (audit C06-1a): they must not reach the wire
//! Reply: per produced PDU `len:nWd:nAnn:attrLen:nhLen:paLenField` (value-carrying lines: `...:DIGEST` of the
//! octets of the PDU - `h<hex>` up to 96 octets, `d<FNV-1a 32>.<octet sum mod 2^32>` above; the Lean driver computes
//! the same digest of `wireBytes`, the byte image of the message its model produces) as judged by the
//! independent decoder below (written from RFC 4271 / 4760 / 7911 / 8277 / 4364 / 4684 /
//! 8955 / 4761 / 7432; it shares no code with routecore). The NLRI of the families added later
//! are encoded by the reference encoders of c05.rs (`ref_enc`), equally independent.
use crate::common::*;
use bytes::Bytes;
use inetnum::addr::Prefix;
use octseq::Parser;
use routecore::bgp::communities::StandardCommunity;
use routecore::bgp::message::update_builder::{ComposeError, UpdateBuilder};
use routecore::bgp::message::{SessionConfig, UpdateMessage};
use crate::props::c05::{gen_fs_components, ref_enc, Shape, Val};
use routecore::bgp::nlri::afisafi::*;
use routecore::bgp::path_attributes::{PaMap, PathAttribute, UnimplementedPathAttribute};
use routecore::bgp::types::{LocalPref, NextHop, Origin, OriginType, PathId, RouteDistinguisher};
use std::cell::RefCell;
use std::net::{IpAddr, Ipv4Addr, Ipv6Addr};

pub struct C06;

const MAX_PDU: usize = 4096;

#[derive(Clone, Copy, PartialEq, Eq, Debug)]
enum Base { V4u, V4m, V4mpls, V4vpn, V4rt, V4fs, V6u, V6m, V6mpls, V6vpn, V6fs, Vpls, Evpn }
use Base::*;

/// an NLRI type: one of the 13 families, with or without path ids
#[derive(Clone, Copy, PartialEq, Eq, Debug)]
struct Fam { b: Base, ap: bool }

const BASES: [(Base, &str); 13] = [(V4u, "v4u"), (V4m, "v4m"), (V4mpls, "v4mpls"), (V4vpn, "v4vpn"), (V4rt, "v4rt"),
    (V4fs, "v4fs"), (V6u, "v6u"), (V6m, "v6m"), (V6mpls, "v6mpls"), (V6vpn, "v6vpn"), (V6fs, "v6fs"), (Vpls, "vpls"), (Evpn, "evpn")];

fn fam_of(s: &str) -> Option<Fam> {
    if let Some((b, _)) = BASES.iter().find(|(_, n)| *n == s) { return Some(Fam { b: *b, ap: false }); }
    let t = s.strip_suffix('a')?;
    BASES.iter().find(|(_, n)| *n == t).map(|(b, _)| Fam { b: *b, ap: true })
}

#[derive(Clone, Copy, PartialEq, Eq, Debug)]
enum Op { Split, Iter, Take, Single }

#[derive(Clone, Copy, PartialEq, Eq, Debug)]
enum Nh { Default, V4, M4, V6, M6, Ll, Ll2, Llx, Ll3, V4ll, M6ll, Vpn4, Vpn6, Empty, Unimpl, Pll, Pv6, Pv6ll }

#[derive(Clone, Debug)]
struct Case {
    op: Op,
    fam: Fam,
    /// None = no MP_UNREACH builder; Some([]) = empty builder
    wd: Option<Vec<usize>>,
    ann: Vec<usize>,
    nh: Nh,
    attrs: usize,
    /// raw copies of MP_REACH_NLRI / MP_UNREACH_NLRI in the attribute map
    raw14: bool,
    raw15: bool,
    /// value-carrying line: the octets of every withdrawn / announced NLRI
    vals: Option<(Vec<Vec<u8>>, Vec<Vec<u8>>)>,
}

/// `$m!(T)` for the NLRI type `T` of `f`
macro_rules! with_type {
    ($f:expr, $m:ident) => {
        match ($f.b, $f.ap) {
            (V4u, false) => $m!(Ipv4UnicastNlri), (V4u, true) => $m!(Ipv4UnicastAddpathNlri),
            (V6u, false) => $m!(Ipv6UnicastNlri), (V6u, true) => $m!(Ipv6UnicastAddpathNlri),
            (V4m, false) => $m!(Ipv4MulticastNlri), (V4m, true) => $m!(Ipv4MulticastAddpathNlri),
            (V6m, false) => $m!(Ipv6MulticastNlri), (V6m, true) => $m!(Ipv6MulticastAddpathNlri),
            (V4mpls, false) => $m!(Ipv4MplsUnicastNlri<Bytes>), (V4mpls, true) => $m!(Ipv4MplsUnicastAddpathNlri<Bytes>),
            (V6mpls, false) => $m!(Ipv6MplsUnicastNlri<Bytes>), (V6mpls, true) => $m!(Ipv6MplsUnicastAddpathNlri<Bytes>),
            (V4vpn, false) => $m!(Ipv4MplsVpnUnicastNlri<Bytes>), (V4vpn, true) => $m!(Ipv4MplsVpnUnicastAddpathNlri<Bytes>),
            (V6vpn, false) => $m!(Ipv6MplsVpnUnicastNlri<Bytes>), (V6vpn, true) => $m!(Ipv6MplsVpnUnicastAddpathNlri<Bytes>),
            (V4rt, false) => $m!(Ipv4RouteTargetNlri<Bytes>), (V4rt, true) => $m!(Ipv4RouteTargetAddpathNlri<Bytes>),
            (V4fs, false) => $m!(Ipv4FlowSpecNlri<Bytes>), (V4fs, true) => $m!(Ipv4FlowSpecAddpathNlri<Bytes>),
            (V6fs, false) => $m!(Ipv6FlowSpecNlri<Bytes>), (V6fs, true) => $m!(Ipv6FlowSpecAddpathNlri<Bytes>),
            (Vpls, false) => $m!(L2VpnVplsNlri), (Vpls, true) => $m!(L2VpnVplsAddpathNlri),
            (Evpn, false) => $m!(L2VpnEvpnNlri<Bytes>), (Evpn, true) => $m!(L2VpnEvpnAddpathNlri<Bytes>),
        }
    };
}

// ---------------------------------------------------------------- parsing

fn num(s: &str) -> Option<usize> {
    if s.is_empty() || s.len() > 7 || !s.bytes().all(|b| b.is_ascii_digit()) { return None; }
    s.parse().ok()
}

/// encoded sizes an NLRI of the family can have (without the path id)
fn base_size_ok(b: Base, s: usize) -> bool {
    match b {
        V4u | V4m => (1..=5).contains(&s),
        V6u | V6m => (1..=17).contains(&s),
        // length octet, 1.. labels of 3 bytes, prefix bytes; at most 255 bits after the length octet
        V4mpls | V6mpls => (4..=32).contains(&s),
        // length octet, labels, 8-byte route distinguisher, prefix bytes
        V4vpn | V6vpn => (12..=32).contains(&s),
        // RFC 4684 4: 0 or 32..=96 bits (the default route target, or at least the origin AS)
        V4rt => s == 1 || (5..=13).contains(&s),
        // one length octet up to a 239-byte body, two from 240 to 4095; an IPv4 FlowSpec body
        // is a sequence of components, none of which has one byte
        V4fs => s == 1 || (3..=240).contains(&s) || (242..=4097).contains(&s),
        V6fs => (1..=240).contains(&s) || (242..=4097).contains(&s),
        // RFC 4761: two-octet length (17) and 17 bytes
        Vpls => s == 19,
        // RFC 7432: route type, length octet, up to 255 bytes
        Evpn => (2..=257).contains(&s),
    }
}

fn size_ok(f: Fam, s: usize) -> bool {
    if f.ap { s > 4 && base_size_ok(f.b, s - 4) } else { base_size_ok(f.b, s) }
}

fn toks(f: Fam, ts: &[&str]) -> Option<Vec<usize>> {
    let mut v = Vec::new();
    if ts.is_empty() { return None; }
    for t in ts {
        let (s, n) = match t.split_once('x') {
            Some((a, b)) => (num(a)?, num(b)?),
            None => (num(t)?, 1),
        };
        if !size_ok(f, s) || n == 0 { return None; }
        for _ in 0..n { v.push(s); }
    }
    Some(v)
}

/// strict lower-case hex
fn unhex_strict(s: &str) -> Option<Vec<u8>> {
    if s.is_empty() || s.len() % 2 != 0 || !s.bytes().all(|b| b.is_ascii_digit() || (b'a'..=b'f').contains(&b)) { return None; }
    (0..s.len() / 2).map(|i| u8::from_str_radix(&s[2 * i..2 * i + 2], 16).ok()).collect()
}

/// the octets are an NLRI of the type: its parser takes all of them and composing the value
/// gives them back (compose_len agreeing)
fn nlri_valid(f: Fam, raw: &[u8]) -> bool {
    macro_rules! ok {
        ($T:ty) => {{
            let b = Bytes::copy_from_slice(raw);
            let mut p = Parser::from_ref(&b);
            match <$T as NlriParse<'_, Bytes, Bytes>>::parse(&mut p) {
                Ok(n) if p.remaining() == 0 => {
                    let mut out: Vec<u8> = Vec::new();
                    n.compose(&mut out).is_ok() && out == raw && n.compose_len() == raw.len()
                }
                _ => false,
            }
        }};
    }
    with_type!(f, ok)
}

/// value tokens: `=<hex>` | `=<hex>x<count>`
fn vtoks(f: Fam, ts: &[&str]) -> Option<Vec<Vec<u8>>> {
    let mut v = Vec::new();
    if ts.is_empty() { return None; }
    for t in ts {
        let r = t.strip_prefix('=')?;
        let parts: Vec<&str> = r.split('x').collect();
        let (h, n) = match parts.as_slice() { [h] => (*h, 1), [h, n] => (*h, num(n)?), _ => return None };
        if h.len() > 8400 || n == 0 { return None; }
        let raw = unhex_strict(h)?;
        if !nlri_valid(f, &raw) { return None; }
        for _ in 0..n { v.push(raw.clone()); }
    }
    Some(v)
}

fn parse_line(line: &str) -> Option<Case> {
    let w: Vec<&str> = line.split(' ').collect();
    if w.len() < 10 { return None; }
    let op = match w[0] { "split" => Op::Split, "iter" => Op::Iter, "take" => Op::Take, "single" => Op::Single, _ => return None };
    let fam = fam_of(w[1])?;
    if w[2] != "wd" { return None; }
    let n = w.len();
    if w[n - 2] != "attrs" || w[n - 4] != "nh" { return None; }
    let ia = w.iter().position(|t| *t == "ann")?;
    if ia < 4 || ia + 1 >= n - 4 { return None; }
    let wt = &w[3..ia];
    let at = &w[ia + 1..n - 4];
    let concrete = w.iter().any(|t| t.starts_with('='));
    let (wd, ann, vals) = if concrete {
        let wv = if wt == ["-"] || wt == ["e"] { vec![] } else { vtoks(fam, wt)? };
        let av = if at == ["-"] { vec![] } else { vtoks(fam, at)? };
        let wd = if wt == ["-"] { None } else { Some(wv.iter().map(|x| x.len()).collect()) };
        (wd, av.iter().map(|x| x.len()).collect(), Some((wv, av)))
    } else {
        let wd = if wt == ["-"] { None } else if wt == ["e"] { Some(vec![]) } else { Some(toks(fam, wt)?) };
        let ann = if at == ["-"] { vec![] } else { toks(fam, at)? };
        (wd, ann, None)
    };
    let (nh_tok, av) = match w[n - 3].split_once('@') { None => (w[n - 3], 0u8), Some((t, "m")) => (t, 1), Some((t, "c")) => (t, 2), Some(_) => return None };
    ADDR_VARIANT.with(|c| c.set(av));
    let nh = match nh_tok {
        "-" => Nh::Default, "v4" => Nh::V4, "m4" => Nh::M4, "v6" => Nh::V6, "ll" => Nh::Ll, "ll2" => Nh::Ll2, "llx" => Nh::Llx,
        "vpn4" => Nh::Vpn4, "vpn6" => Nh::Vpn6, "empty" => Nh::Empty, "unimpl" => Nh::Unimpl, "ll3" => Nh::Ll3, "v4ll" => Nh::V4ll,
        "m6" => Nh::M6, "m6ll" => Nh::M6ll, "pll" => Nh::Pll, "pv6" => Nh::Pv6, "pv6ll" => Nh::Pv6ll, _ => return None,
    };
    let (al, raw14, raw15) = match w[n - 1].split_once('+') {
        None => (w[n - 1], false, false),
        Some((a, "mp14")) => (a, true, false),
        Some((a, "mp15")) => (a, false, true),
        Some((a, "mp")) => (a, true, true),
        Some(_) => return None,
    };
    let attrs = num(al)?;
    if attrs == 1 || attrs == 2 { return None; }
    Some(Case { op, fam, wd, ann, nh, attrs, raw14, raw15, vals })
}

// ---------------------------------------------------------------- inputs: values + reference encodings

fn mix(i: usize) -> u64 {
    let mut x = (i as u64).wrapping_add(0x9E3779B97F4A7C15);
    x = (x ^ (x >> 30)).wrapping_mul(0xBF58476D1CE4E5B9);
    x = (x ^ (x >> 27)).wrapping_mul(0x94D049BB133111EB);
    x ^ (x >> 31)
}

/// (prefix length in bits, address) for an NLRI whose prefix part takes `psize` bytes
fn v4_parts(psize: usize, idx: usize) -> (u8, u32) {
    let bits = if psize == 1 { 0 } else { ((psize - 1) * 8 - (idx % 8)) as u8 };
    let a = mix(idx) as u32;
    let a = if bits == 0 { 0 } else { a & (u32::MAX << (32 - bits as u32)) };
    (bits, a)
}

fn v6_parts(psize: usize, idx: usize) -> (u8, u128) {
    let bits = if psize == 1 { 0 } else { ((psize - 1) * 8 - (idx % 8)) as u8 };
    let a = ((mix(idx) as u128) << 64) | mix(idx + 77) as u128;
    let a = if bits == 0 { 0 } else { a & (u128::MAX << (128 - bits as u32)) };
    (bits, a)
}

/// (number of labels, prefix bytes) of an IPv4 MPLS NLRI of `size` bytes
fn mpls_shape(size: usize) -> (usize, usize) {
    let k = ((size - 1) / 3).min(9);
    (k, size - 1 - 3 * k)
}

/// (number of labels, prefix bytes) for `q` = label + prefix bytes, at most `pmax` prefix bytes;
/// the number of labels varies with `idx` over everything the size allows
fn label_shape(q: usize, pmax: usize, idx: usize) -> (usize, usize) {
    let kmin = (if q > pmax { (q - pmax + 2) / 3 } else { 1 }).max(1);
    let kmax = q / 3;
    let k = kmin + idx % (kmax - kmin + 1);
    (k, q - 3 * k)
}

fn fs_body(size: usize, idx: usize) -> Vec<u8> {
    let n = if size <= 240 { size - 1 } else { size - 2 };
    (0..n).map(|j| (idx.wrapping_mul(31).wrapping_add(j * 7)) as u8).collect()
}

fn ref_labels(k: usize, idx: usize) -> Vec<u8> {
    let mut v = Vec::new();
    for j in 0..k {
        let lbl = 16 + ((idx * 7 + j) % 1000) as u32;
        v.extend_from_slice(&[(lbl >> 12) as u8, (lbl >> 4) as u8, ((lbl << 4) as u8) | if j + 1 == k { 1 } else { 0 }]);
    }
    v
}

fn shape_of(b: Base) -> Shape {
    match b { V4u | V4m | V6u | V6m => Shape::Pfx, V4mpls | V6mpls => Shape::Mpls, V4vpn | V6vpn => Shape::Vpn, V4rt => Shape::Rt,
        V4fs | V6fs => Shape::Fs, Vpls => Shape::Vpls, Evpn => Shape::Evpn }
}

/// the value of NLRI number `idx` of the families that are encoded by c05's reference encoders
/// (`ps` = encoded size without the path id)
fn ref_val(b: Base, ps: usize, idx: usize) -> Val {
    let mut v = Val::default();
    let bytes = |n: usize, salt: usize| -> Vec<u8> { (0..n).map(|j| (mix(idx.wrapping_mul(131) + salt) >> (8 * (j % 8))) as u8 ^ (j / 8) as u8).collect() };
    let pfx = |v: &mut Val, v6: bool, p: usize| {
        if v6 { let (bits, a) = v6_parts(p + 1, idx); v.plen = bits as u64; v.addr = a.to_be_bytes().to_vec(); }
        else { let (bits, a) = v4_parts(p + 1, idx); v.plen = bits as u64; v.addr = a.to_be_bytes().to_vec(); }
    };
    match b {
        V6mpls => { let (k, p) = label_shape(ps - 1, 16, idx); v.labels = ref_labels(k, idx); pfx(&mut v, true, p); }
        V4vpn | V6vpn => {
            let v6 = b == V6vpn;
            let (k, p) = label_shape(ps - 9, if v6 { 16 } else { 4 }, idx);
            v.labels = ref_labels(k, idx);
            v.rd = bytes(8, 1);
            if idx % 3 == 0 { v.rd[0] = 0; v.rd[1] = (idx % 3) as u8; }
            pfx(&mut v, v6, p);
        }
        V4rt => v.raw = bytes(ps - 1, 2),
        V4fs => {
            v.afi = 1;
            let n = if ps <= 240 { ps - 1 } else { ps - 2 };
            v.raw = if n == 0 { vec![] } else { gen_fs_components(&mut Rng::new(mix(idx) ^ ps as u64), n) };
        }
        Vpls => {
            v.rd = bytes(8, 3);
            let m = mix(idx + 5);
            v.ve = [m & 0xffff, (m >> 16) & 0xffff, (m >> 32) & 0xffff];
            v.lb = (m >> 40) & 0xff_ffff;
        }
        Evpn => { v.t = 1 + (idx % 5) as u64; v.raw = bytes(ps - 2, 4); }
        _ => unreachable!(),
    }
    v
}

/// reference encoding of NLRI number `idx` (`wd`: withdrawals use another index space)
fn ref_nlri(f: Fam, size: usize, idx: usize) -> Vec<u8> {
    let mut v = Vec::new();
    // RFC 7911: the path identifier comes first
    let ps = if f.ap { v.extend_from_slice(&(idx as u32).to_be_bytes()); size - 4 } else { size };
    match f.b {
        V4mpls => {
            let (k, p) = mpls_shape(ps);
            let (bits, a) = v4_parts(p + 1, idx);
            v.push((24 * k) as u8 + bits);
            v.extend(ref_labels(k, idx));
            v.extend_from_slice(&a.to_be_bytes()[..p]);
        }
        V4u | V4m => {
            let (bits, a) = v4_parts(ps, idx);
            v.push(bits);
            v.extend_from_slice(&a.to_be_bytes()[..ps - 1]);
        }
        V6u | V6m => {
            let (bits, a) = v6_parts(ps, idx);
            v.push(bits);
            v.extend_from_slice(&a.to_be_bytes()[..ps - 1]);
        }
        V6fs => {
            let b = fs_body(ps, idx);
            if b.len() >= 240 { v.extend_from_slice(&(0xf000u16 | b.len() as u16).to_be_bytes()); } else { v.push(b.len() as u8); }
            v.extend_from_slice(&b);
        }
        b => v.extend(ref_enc(shape_of(b), &ref_val(b, ps, idx))),
    }
    debug_assert_eq!(v.len(), size);
    v
}

const V4NH: [u8; 4] = [10, 0, 0, 1];
const V6NH_PLAIN: [u8; 16] = [0x20, 0x01, 0x0d, 0xb8, 0, 0, 0, 0, 0, 0, 0, 0, 0, 0, 0, 1];
thread_local! {
    /// address variant of the IPv6 global next hop of the request being handled (set by `parse`): 0 = 2001:db8::1,
    /// 1 = IPv4-mapped ::ffff:10.0.0.1 (nh token suffix `@m`), 2 = IPv4-compatible ::10.0.0.1 (`@c`).  A next hop is
    /// the sixteen octets the caller gave, whatever they denote (round-6 seed: `to_canonical()` in set_mp_nexthop).
    static ADDR_VARIANT: std::cell::Cell<u8> = const { std::cell::Cell::new(0) };
}
#[allow(non_snake_case)]
fn V6NH_now() -> [u8; 16] {
    match ADDR_VARIANT.with(|c| c.get()) {
        1 => [0, 0, 0, 0, 0, 0, 0, 0, 0, 0, 0xff, 0xff, 10, 0, 0, 1],
        2 => [0, 0, 0, 0, 0, 0, 0, 0, 0, 0, 0, 0, 10, 0, 0, 1],
        _ => V6NH_PLAIN,
    }
}
const LLNH: [u8; 16] = [0xfe, 0x80, 0, 0, 0, 0, 0, 0, 0, 0, 0, 0, 0, 0, 0, 1];
const LLNH_OLD: [u8; 16] = [0xfe, 0x80, 0, 0, 0, 0, 0, 0, 0, 0, 0, 0, 0, 0, 0xab, 0xcd];
const RD: [u8; 8] = [0, 1, 0, 2, 0, 3, 0, 4];

/// address bytes of the next hop a family has by nature: IPv4 / IPv6 address, for the VPN
/// families preceded by a route distinguisher (RFC 4364 / 4659), none for FlowSpec (RFC 8955)
fn default_nh_bytes(f: Fam) -> usize {
    match f.b { V4u | V4m | V4mpls | V4rt | Vpls | Evpn => 4, V6u | V6m | V6mpls => 16, V4vpn => 12, V6vpn => 24, V4fs | V6fs => 0 }
}

/// reference encoding of the next-hop field (length octet + bytes)
fn ref_nh(f: Fam, nh: Nh) -> Vec<u8> {
    let mut v = Vec::new();
    match nh {
        // `set_nexthop` not called: the all-zero next hop of the family's natural form
        Nh::Default => { let n = default_nh_bytes(f); v.push(n as u8); v.extend(std::iter::repeat(0u8).take(n)); }
        Nh::V4 | Nh::M4 => { v.push(4); v.extend_from_slice(&V4NH); }
        Nh::V6 | Nh::M6 | Nh::Pv6 => { v.push(16); v.extend_from_slice(&V6NH_now()); }
        // (m6ll: if it is accepted at all, RFC 2545 3 gives the 32-octet form)
        Nh::Ll | Nh::Ll2 | Nh::Llx | Nh::Pv6ll | Nh::M6ll => { v.push(32); v.extend_from_slice(&V6NH_now()); v.extend_from_slice(&LLNH); }
        // a link-local address given alone: the global one is unspecified (::) - which is also the
        // default next hop of the IPv6 families that `pll` finds in place
        Nh::Ll3 | Nh::Pll => { v.push(32); v.extend_from_slice(&[0; 16]); v.extend_from_slice(&LLNH); }
        Nh::Vpn4 => { v.push(12); v.extend_from_slice(&RD); v.extend_from_slice(&V4NH); }
        Nh::Vpn6 => { v.push(24); v.extend_from_slice(&RD); v.extend_from_slice(&V6NH_now()); }
        Nh::Empty => v.push(0),
        // no wire form: the builder must refuse it
        Nh::Unimpl | Nh::V4ll => {}
    }
    v
}

/// How an attribute set of exactly `len` bytes is made up:
/// (origin?, local_pref?, number of standard communities, filler attribute total size)
fn attr_plan(len: usize) -> (bool, bool, usize, usize) {
    let repr = |f: usize| f == 0 || (3..=258).contains(&f) || f >= 260;
    let comm_bytes = |c: usize| if c == 0 { 0 } else if 4 * c > 255 { 4 + 4 * c } else { 3 + 4 * c };
    if len == 0 { return (false, false, 0, 0); }
    let c = if len >= 100 { ((len / 2 - 4) / 4).min(400) } else { 0 };
    let cands = [(true, true, c), (true, true, 0), (true, false, 0), (false, false, 0)];
    for (o, l, c) in cands {
        let fixed = (if o { 4 } else { 0 }) + (if l { 7 } else { 0 }) + comm_bytes(c);
        if len >= fixed + 3 && repr(len - fixed) { return (o, l, c, len - fixed); }
        if len == fixed { return (o, l, c, 0); }
    }
    (false, false, 0, len)
}

fn comm_raw(i: usize) -> [u8; 4] { [0xfd, 0xe8, (i >> 8) as u8, i as u8] }

const FILLER_TC: u8 = 250;

/// reference encoding of the attribute set, in type-code order (RFC 4271 4.3)
fn ref_attrs(len: usize) -> Vec<u8> {
    let (o, l, c, fill) = attr_plan(len);
    let mut v = Vec::new();
    if o { v.extend_from_slice(&[0x40, 1, 1, 0]); }
    if l { v.extend_from_slice(&[0x40, 5, 4, 0, 0, 0, 100]); }
    if c > 0 {
        if 4 * c > 255 { v.extend_from_slice(&[0xd0, 8]); v.extend_from_slice(&((4 * c) as u16).to_be_bytes()); }
        else { v.extend_from_slice(&[0xc0, 8, (4 * c) as u8]); }
        for i in 0..c { v.extend_from_slice(&comm_raw(i)); }
    }
    if fill > 0 {
        if fill >= 260 {
            let n = fill - 4;
            v.extend_from_slice(&[0xc0 | 0x20 | 0x10, FILLER_TC]);
            v.extend_from_slice(&(n as u16).to_be_bytes());
            v.extend((0..n).map(|j| (j * 3) as u8));
        } else {
            let n = fill - 3;
            v.extend_from_slice(&[0xc0 | 0x20, FILLER_TC, n as u8]);
            v.extend((0..n).map(|j| (j * 3) as u8));
        }
    }
    debug_assert_eq!(v.len(), len);
    v
}

fn build_pamap(len: usize, raw14: bool, raw15: bool) -> (PaMap, usize) {
    let (o, l, c, fill) = attr_plan(len);
    let mut m = PaMap::empty();
    // raw copies of the MP attributes (IPv4 unicast, no NLRI), as `WireformatPathAttribute::to_owned`
    // makes them from a received UPDATE
    if raw14 { m.add_attribute(PathAttribute::Unimplemented(UnimplementedPathAttribute::new(0x80.into(), 14, vec![0, 1, 1, 0, 0]))).unwrap(); }
    if raw15 { m.add_attribute(PathAttribute::Unimplemented(UnimplementedPathAttribute::new(0x80.into(), 15, vec![0, 1, 1]))).unwrap(); }
    if o { m.set(Origin(OriginType::Igp)); }
    if l { m.set(LocalPref(100)); }
    if fill > 0 {
        let (n, fl) = if fill >= 260 { (fill - 4, 0xc0u8 | 0x10) } else { (fill - 3, 0xc0u8) };
        let val: Vec<u8> = (0..n).map(|j| (j * 3) as u8).collect();
        m.add_attribute(PathAttribute::Unimplemented(UnimplementedPathAttribute::new(fl.into(), FILLER_TC, val))).unwrap();
    }
    (m, c)
}

// ---------------------------------------------------------------- independent decoder

#[derive(Default, Debug)]
struct Dec {
    len: usize,
    wd: Vec<Vec<u8>>,
    ann: Vec<Vec<u8>>,
    other_attrs: Vec<u8>,
    nh: Option<Vec<u8>>,
    /// the total path attribute length field
    pa_len: usize,
}

fn take<'a>(b: &mut &'a [u8], n: usize, what: &str) -> Result<&'a [u8], String> {
    if b.len() < n { return Err(format!("short:{}", what)); }
    let (h, t) = b.split_at(n);
    *b = t;
    Ok(h)
}

fn dec_nlri_list(mut b: &[u8], afi: u16, safi: u8, addpath: bool) -> Result<Vec<Vec<u8>>, String> {
    let mut out = Vec::new();
    while !b.is_empty() {
        let start = b;
        if addpath { take(&mut b, 4, "pathid")?; }
        match (afi, safi) {
            (1, 4) | (2, 4) => {
                // RFC 8277: length in bits of labels + prefix
                let bits = take(&mut b, 1, "plen")?[0] as usize;
                if bits < 24 || bits > 24 * 10 + if afi == 1 { 32 } else { 128 } { return Err("mpls-length".into()); }
                take(&mut b, (bits + 7) / 8, "labels+prefix")?;
            }
            (1, 128) | (2, 128) => {
                // RFC 4364 4.3.4: length in bits of labels + route distinguisher + prefix
                let bits = take(&mut b, 1, "plen")?[0] as usize;
                if bits < 24 + 64 { return Err("vpn-length".into()); }
                take(&mut b, (bits + 7) / 8, "labels+rd+prefix")?;
            }
            (1, 132) => {
                // RFC 4684 4: origin AS + route target, 0..=96 bits
                let bits = take(&mut b, 1, "plen")?[0] as usize;
                if bits > 96 { return Err("rt-length".into()); }
                take(&mut b, (bits + 7) / 8, "rt")?;
            }
            (1, 1) | (2, 1) | (1, 2) | (2, 2) => {
                let bits = take(&mut b, 1, "plen")?[0] as usize;
                if bits > if afi == 1 { 32 } else { 128 } { return Err("prefix-length".into()); }
                take(&mut b, (bits + 7) / 8, "prefix")?;
            }
            (2, 133) | (1, 133) => {
                let l1 = take(&mut b, 1, "fslen")?[0] as usize;
                let n = if l1 >= 0xf0 { ((l1 << 8) | take(&mut b, 1, "fslen2")?[0] as usize) & 0x0fff } else { l1 };
                take(&mut b, n, "fsbody")?;
            }
            (25, 65) => {
                // RFC 4761 3.2.2: two-octet length, then that many bytes (17)
                let l = take(&mut b, 2, "vplslen")?;
                let n = ((l[0] as usize) << 8) | l[1] as usize;
                if n != 17 { return Err("vpls-length".into()); }
                take(&mut b, n, "vpls")?;
            }
            (25, 70) => {
                // RFC 7432 7: route type, length, route type specific
                take(&mut b, 1, "evpntype")?;
                let n = take(&mut b, 1, "evpnlen")?[0] as usize;
                take(&mut b, n, "evpn")?;
            }
            _ => return Err("family".into()),
        }
        out.push(start[..start.len() - b.len()].to_vec());
    }
    Ok(out)
}

/// Minimal UPDATE decoder (RFC 4271 4.3, RFC 4760 3/4, RFC 7911 3).
fn decode_update(pdu: &[u8], afi: u16, safi: u8, addpath: bool) -> Result<Dec, String> {
    let mut d = Dec { len: pdu.len(), ..Default::default() };
    let mut b = pdu;
    if take(&mut b, 16, "marker")?.iter().any(|x| *x != 0xff) { return Err("marker".into()); }
    let l = take(&mut b, 2, "length")?;
    let hl = ((l[0] as usize) << 8) | l[1] as usize;
    if hl != pdu.len() { return Err(format!("header-length:{}!={}", hl, pdu.len())); }
    if take(&mut b, 1, "type")?[0] != 2 { return Err("type".into()); }
    let l = take(&mut b, 2, "wdlen")?;
    let wl = ((l[0] as usize) << 8) | l[1] as usize;
    let w = take(&mut b, wl, "withdrawn")?;
    // conventional sections are IPv4 unicast
    d.wd.extend(dec_nlri_list(w, 1, 1, addpath && afi == 1 && safi == 1)?);
    let l = take(&mut b, 2, "attrlen")?;
    let al = ((l[0] as usize) << 8) | l[1] as usize;
    d.pa_len = al;
    let mut a = take(&mut b, al, "attributes")?;
    let mut seen = [false; 256];
    while !a.is_empty() {
        let start = a;
        let h = take(&mut a, 2, "attrhdr")?;
        let (fl, tc) = (h[0], h[1]);
        let n = if fl & 0x10 != 0 { let l = take(&mut a, 2, "attrlen2")?; ((l[0] as usize) << 8) | l[1] as usize }
                else { take(&mut a, 1, "attrlen1")?[0] as usize };
        let mut v = take(&mut a, n, "attrvalue")?;
        if seen[tc as usize] { return Err(format!("duplicate-attr:{}", tc)); }
        seen[tc as usize] = true;
        if fl & 0x0f != 0 { return Err("attr-flags-low-bits".into()); }
        match tc {
            14 => {
                if fl & 0xc0 != 0x80 { return Err("mpreach-flags".into()); }
                let h = take(&mut v, 3, "mpreach-afisafi")?;
                if (((h[0] as u16) << 8) | h[1] as u16, h[2]) != (afi, safi) { return Err("mpreach-family".into()); }
                let nl = take(&mut v, 1, "nhlen")?[0] as usize;
                let nhb = take(&mut v, nl, "nexthop")?;
                let mut nh = vec![nl as u8];
                nh.extend_from_slice(nhb);
                d.nh = Some(nh);
                if take(&mut v, 1, "reserved")?[0] != 0 { return Err("reserved".into()); }
                d.ann.extend(dec_nlri_list(v, afi, safi, addpath)?);
            }
            15 => {
                if fl & 0xc0 != 0x80 { return Err("mpunreach-flags".into()); }
                let h = take(&mut v, 3, "mpunreach-afisafi")?;
                if (((h[0] as u16) << 8) | h[1] as u16, h[2]) != (afi, safi) { return Err("mpunreach-family".into()); }
                d.wd.extend(dec_nlri_list(v, afi, safi, addpath)?);
            }
            _ => d.other_attrs.extend_from_slice(&start[..start.len() - a.len()]),
        }
    }
    d.ann.extend(dec_nlri_list(b, 1, 1, addpath && afi == 1 && safi == 1)?);
    Ok(d)
}

/// the attributes of a framed section as a set: (type code, flags without the EXTENDED_LEN bit, value), by type code
/// (`decode_update` has already refused repeated type codes); `None` = not a sequence of complete attributes
fn attr_set(sec: &[u8]) -> Option<Vec<(u8, u8, Vec<u8>)>> {
    let mut out = Vec::new();
    let mut i = 0;
    while i < sec.len() {
        if i + 3 > sec.len() { return None; }
        let (fl, tc) = (sec[i], sec[i + 1]);
        let (n, h) = if fl & 0x10 != 0 { if i + 4 > sec.len() { return None; } (((sec[i + 2] as usize) << 8) | sec[i + 3] as usize, 4) } else { (sec[i + 2] as usize, 3) };
        if i + h + n > sec.len() { return None; }
        out.push((tc, fl & !0x10, sec[i + h..i + h + n].to_vec()));
        i += h + n;
    }
    out.sort();
    Some(out)
}

// ---------------------------------------------------------------- running the real code

/// the property only says "an error": which ComposeError it is (and what its Display says) is
/// not observed
enum Item { Msg(Vec<u8>), Err }

struct Run { items: Vec<Item>, hang: bool, rem: Option<bool>, split_err: bool, nh_rejected: bool }

fn real_nh(nh: Nh) -> Option<NextHop> {
    let v4 = IpAddr::V4(Ipv4Addr::from(V4NH));
    let v6 = Ipv6Addr::from(V6NH_now());
    Some(match nh {
        Nh::Default | Nh::Ll3 | Nh::Pll | Nh::Pv6 | Nh::Pv6ll => return None,
        Nh::V4 | Nh::V4ll => NextHop::Unicast(v4),
        Nh::M4 => NextHop::Multicast(v4),
        Nh::M6 | Nh::M6ll => NextHop::Multicast(IpAddr::V6(v6)),
        Nh::V6 | Nh::Ll2 => NextHop::Unicast(IpAddr::V6(v6)),
        Nh::Ll => NextHop::Ipv6LL(v6, Ipv6Addr::from(LLNH)),
        // (tie coverage) an Ipv6LL next hop whose link-local half set_nexthop_ll_addr then REPLACES by LLNH:
        // the NextHop::Ipv6LL arm of MpReachNlriBuilder::set_nexthop_ll_addr
        Nh::Llx => NextHop::Ipv6LL(v6, Ipv6Addr::from(LLNH_OLD)),
        Nh::Vpn4 => NextHop::MplsVpnUnicast(RouteDistinguisher::new(RD), v4),
        Nh::Vpn6 => NextHop::MplsVpnUnicast(RouteDistinguisher::new(RD), IpAddr::V6(v6)),
        Nh::Empty => NextHop::Empty,
        Nh::Unimpl => NextHop::Unimplemented(AfiSafiType::Unsupported(99, 99)),
    })
}

/// a PDU whose only content is an MP_UNREACH_NLRI of another family than `f`;
/// `add_withdrawals_from_pdu` of it left an *empty* MP_UNREACH builder behind until the C07
/// repair of K7; now it leaves the builder unchanged (the `e` lines check exactly that)
fn foreign_pdu(f: Fam) -> UpdateMessage<Bytes> {
    let cfg = SessionConfig::modern();
    let raw: Vec<u8> = if f.b != V6u {
        let mut b = UpdateBuilder::<Vec<u8>, Ipv6UnicastNlri>::new_vec();
        b.add_withdrawal(Ipv6UnicastNlri::try_from(Prefix::new_v6(Ipv6Addr::from(V6NH_now()), 128).unwrap()).unwrap()).unwrap();
        b.into_message(&cfg).unwrap().as_ref().to_vec()
    } else {
        let mut b = UpdateBuilder::<Vec<u8>, Ipv4UnicastNlri>::new_vec();
        b.add_withdrawal(Ipv4UnicastNlri::try_from(Prefix::new_v4(Ipv4Addr::from(V4NH), 32).unwrap()).unwrap()).unwrap();
        b.into_message(&cfg).unwrap().as_ref().to_vec()
    };
    UpdateMessage::from_octets(Bytes::from(raw), &cfg).unwrap()
}

macro_rules! run_family {
    ($c:expr, $A:ty, $cfg:expr, $mk:expr) => {{
        let c: &Case = $c;
        let cfg: &SessionConfig = $cfg;
        let mk = $mk;
        let build = || -> UpdateBuilder<Vec<u8>, $A> {
            let (pamap, ncomm) = build_pamap(c.attrs, c.raw14, c.raw15);
            let mut b = UpdateBuilder::<Vec<u8>, $A>::from_attributes_builder(pamap);
            for i in 0..ncomm { b.add_community(StandardCommunity::from_raw(comm_raw(i))).unwrap(); }
            if let Some(nh) = real_nh(c.nh) { b.set_nexthop(nh).unwrap(); }
            if matches!(c.nh, Nh::Ll2 | Nh::Llx | Nh::Ll3 | Nh::V4ll | Nh::M6ll) { b.set_nexthop_ll_addr(Ipv6Addr::from(LLNH)).unwrap(); }
            match &c.wd {
                None => {}
                Some(v) if v.is_empty() => {
                    let src = foreign_pdu(c.fam);
                    b.add_withdrawals_from_pdu::<Bytes, Bytes>(&src, cfg);
                }
                Some(v) => {
                    // exercise both ways in
                    if v.len() % 2 == 0 {
                        b.withdrawals_from_iter(v.iter().enumerate().map(|(i, s)| mk(*s, 1_000_000 + i))).unwrap();
                    } else {
                        for (i, s) in v.iter().enumerate() { b.add_withdrawal(mk(*s, 1_000_000 + i)).unwrap(); }
                    }
                }
            }
            for (i, s) in c.ann.iter().enumerate() { b.add_announcement(mk(*s, i)).unwrap(); }
            // the next-hop calls that come after the announcements
            if matches!(c.nh, Nh::Pv6 | Nh::Pv6ll) { b.set_nexthop(NextHop::Unicast(IpAddr::V6(Ipv6Addr::from(V6NH_now())))).unwrap(); }
            if matches!(c.nh, Nh::Pll | Nh::Pv6ll) { b.set_nexthop_ll_addr(Ipv6Addr::from(LLNH)).unwrap(); }
            b
        };
        let n_nlri = c.wd.as_ref().map_or(0, |v| v.len()) + c.ann.len();
        let bound = n_nlri + 2;
        let mut run = Run { items: vec![], hang: false, rem: None, split_err: false, nh_rejected: false };
        // a next hop without a wire form must be refused where it is set: the same calls in the
        // same order on a probe (one announcement stands for all of them)
        {
            let mut probe = UpdateBuilder::<Vec<u8>, $A>::new_vec();
            if let Some(nh) = real_nh(c.nh) { if probe.set_nexthop(nh).is_err() { run.nh_rejected = true; } }
            if !run.nh_rejected && matches!(c.nh, Nh::Ll2 | Nh::Llx | Nh::Ll3 | Nh::V4ll | Nh::M6ll) {
                if probe.set_nexthop_ll_addr(Ipv6Addr::from(LLNH)).is_err() { run.nh_rejected = true; }
            }
            if !run.nh_rejected && !c.ann.is_empty() { probe.add_announcement(mk(c.ann[0], 0)).unwrap(); }
            if !run.nh_rejected && matches!(c.nh, Nh::Pv6 | Nh::Pv6ll) {
                if probe.set_nexthop(NextHop::Unicast(IpAddr::V6(Ipv6Addr::from(V6NH_now())))).is_err() { run.nh_rejected = true; }
            }
            if !run.nh_rejected && matches!(c.nh, Nh::Pll | Nh::Pv6ll) {
                if probe.set_nexthop_ll_addr(Ipv6Addr::from(LLNH)).is_err() { run.nh_rejected = true; }
            }
        }
        let as_item = |r: Result<UpdateMessage<Vec<u8>>, ComposeError>| match r {
            Ok(m) => Item::Msg(m.as_ref().to_vec()),
            Err(_) => Item::Err,
        };
        // every op first pulls the iterator under the proven bound: the loop of
        // into_messages must not be entered when it cannot end
        let mut it_items = Vec::new();
        let mut over = false;
        if !run.nh_rejected && (c.op == Op::Iter || c.op == Op::Split) {
            for r in build().into_pdu_iter(cfg) {
                if it_items.len() >= bound { over = true; break; }
                it_items.push(as_item(r));
            }
        }
        if !run.nh_rejected { match c.op {
            Op::Iter => { run.items = it_items; run.hang = over; }
            Op::Split => {
                if over { run.hang = true; } else {
                    match build().into_messages(cfg) {
                        Ok(v) => run.items = v.into_iter().map(|m| Item::Msg(m.as_ref().to_vec())).collect(),
                        Err(_) => run.split_err = true,
                    }
                }
            }
            Op::Take => {
                let (r, rem) = build().take_message(cfg);
                run.items.push(as_item(r));
                run.rem = Some(rem.is_some());
            }
            Op::Single => run.items.push(as_item(build().into_message(cfg))),
        } }
        run
    }};
}

fn afisafi(f: Fam) -> (u16, u8, bool) {
    let (a, s) = match f.b {
        V4u => (1, 1), V4m => (1, 2), V4mpls => (1, 4), V4vpn => (1, 128), V4rt => (1, 132), V4fs => (1, 133),
        V6u => (2, 1), V6m => (2, 2), V6mpls => (2, 4), V6vpn => (2, 128), V6fs => (2, 133), Vpls => (25, 65), Evpn => (25, 70),
    };
    (a, s, f.ap)
}

/// octets of NLRI number `idx` of the case (withdrawals count from 1_000_000)
fn nlri_octets(c: &Case, size: usize, idx: usize) -> Vec<u8> {
    match &c.vals {
        Some((wv, av)) => if idx >= 1_000_000 { wv[idx - 1_000_000].clone() } else { av[idx].clone() },
        None => ref_nlri(c.fam, size, idx),
    }
}

fn fnv32(raw: &[u8]) -> u32 { raw.iter().fold(2166136261u32, |h, b| (h ^ *b as u32).wrapping_mul(16777619)) }
fn sum32(raw: &[u8]) -> u32 { raw.iter().fold(0u32, |s, b| s.wrapping_add(*b as u32)) }

/// short messages in full, longer ones as FNV-1a and octet sum (the Lean driver prints the same of its byte image)
fn digest(raw: &[u8]) -> String {
    if raw.len() <= 96 { format!("h{}", raw.iter().map(|b| format!("{:02x}", b)).collect::<String>()) }
    else { format!("d{}.{}", fnv32(raw), sum32(raw)) }
}

fn run_case(c: &Case) -> Run {
    let mut cfg = SessionConfig::modern();
    let f = c.fam;
    if f.ap {
        // the session both sides agreed ADD-PATH on for this family
        let (a, s, _) = afisafi(f);
        cfg.add_addpath_rxtx(AfiSafiType::from((a, s)));
    }
    // NLRI values built by the family's own parser from the reference encoding
    macro_rules! parsed {
        ($T:ty) => { run_family!(c, $T, &cfg, |s: usize, i: usize| {
            let raw = Bytes::from(nlri_octets(c, s, i));
            let mut p = Parser::from_ref(&raw);
            let n = <$T as NlriParse<'_, Bytes, Bytes>>::parse(&mut p).unwrap();
            assert_eq!(p.remaining(), 0);
            n
        }) };
    }
    // a value-carrying line: every value is made by the type's parser from the octets given
    if c.vals.is_some() { return with_type!(f, parsed); }
    match (f.b, f.ap) {
        // the prefix families also through their constructors
        (V4u, false) => run_family!(c, Ipv4UnicastNlri, &cfg, |s: usize, i: usize| {
            let (bits, a) = v4_parts(s, i);
            Ipv4UnicastNlri::try_from(Prefix::new_v4(Ipv4Addr::from(a), bits).unwrap()).unwrap()
        }),
        (V6u, false) => run_family!(c, Ipv6UnicastNlri, &cfg, |s: usize, i: usize| {
            let (bits, a) = v6_parts(s, i);
            Ipv6UnicastNlri::try_from(Prefix::new_v6(Ipv6Addr::from(a), bits).unwrap()).unwrap()
        }),
        (V4u, true) => run_family!(c, Ipv4UnicastAddpathNlri, &cfg, |s: usize, i: usize| {
            let (bits, a) = v4_parts(s - 4, i);
            Ipv4UnicastAddpathNlri::try_from((Prefix::new_v4(Ipv4Addr::from(a), bits).unwrap(), PathId(i as u32))).unwrap()
        }),
        (V6u, true) => run_family!(c, Ipv6UnicastAddpathNlri, &cfg, |s: usize, i: usize| {
            let (bits, a) = v6_parts(s - 4, i);
            Ipv6UnicastAddpathNlri::try_from((Prefix::new_v6(Ipv6Addr::from(a), bits).unwrap(), PathId(i as u32))).unwrap()
        }),
        (V4m, false) => run_family!(c, Ipv4MulticastNlri, &cfg, |s: usize, i: usize| {
            let (bits, a) = v4_parts(s, i);
            Ipv4MulticastNlri::try_from(Prefix::new_v4(Ipv4Addr::from(a), bits).unwrap()).unwrap()
        }),
        (V6m, false) => run_family!(c, Ipv6MulticastNlri, &cfg, |s: usize, i: usize| {
            let (bits, a) = v6_parts(s, i);
            Ipv6MulticastNlri::try_from(Prefix::new_v6(Ipv6Addr::from(a), bits).unwrap()).unwrap()
        }),
        (V4m, true) => parsed!(Ipv4MulticastAddpathNlri),
        (V6m, true) => parsed!(Ipv6MulticastAddpathNlri),
        (V4mpls, false) => parsed!(Ipv4MplsUnicastNlri<Bytes>),
        (V4mpls, true) => parsed!(Ipv4MplsUnicastAddpathNlri<Bytes>),
        (V6mpls, false) => parsed!(Ipv6MplsUnicastNlri<Bytes>),
        (V6mpls, true) => parsed!(Ipv6MplsUnicastAddpathNlri<Bytes>),
        (V4vpn, false) => parsed!(Ipv4MplsVpnUnicastNlri<Bytes>),
        (V4vpn, true) => parsed!(Ipv4MplsVpnUnicastAddpathNlri<Bytes>),
        (V6vpn, false) => parsed!(Ipv6MplsVpnUnicastNlri<Bytes>),
        (V6vpn, true) => parsed!(Ipv6MplsVpnUnicastAddpathNlri<Bytes>),
        (V4rt, false) => parsed!(Ipv4RouteTargetNlri<Bytes>),
        (V4rt, true) => parsed!(Ipv4RouteTargetAddpathNlri<Bytes>),
        (V4fs, false) => parsed!(Ipv4FlowSpecNlri<Bytes>),
        (V4fs, true) => parsed!(Ipv4FlowSpecAddpathNlri<Bytes>),
        (V6fs, false) => parsed!(Ipv6FlowSpecNlri<Bytes>),
        (V6fs, true) => parsed!(Ipv6FlowSpecAddpathNlri<Bytes>),
        (Vpls, false) => parsed!(L2VpnVplsNlri),
        (Vpls, true) => parsed!(L2VpnVplsAddpathNlri),
        (Evpn, false) => parsed!(L2VpnEvpnNlri<Bytes>),
        (Evpn, true) => parsed!(L2VpnEvpnAddpathNlri<Bytes>),
    }
}

// ---------------------------------------------------------------- reply + property verdict

struct Verdict { reply: String, ok: Result<(), String> }

fn mp_reach_len(nh: usize, nlri: usize) -> usize { let v = 4 + nh + nlri; v + if v > 255 { 4 } else { 3 } }
fn mp_unreach_len(nlri: usize) -> usize { let v = 3 + nlri; v + if v > 255 { 4 } else { 3 } }

fn judge(c: &Case) -> Verdict {
    let run = run_case(c);
    if run.nh_rejected {
        // refusing a next hop that cannot be encoded is the error the property asks for: the next hop
        // of an unsupported family, and a link-local address next to anything but an IPv6 unicast
        // next hop (routecore's NextHop has the 32-octet form for Unicast(V6) only)
        let no_form = match c.nh {
            Nh::Unimpl | Nh::V4ll | Nh::M6ll => true,
            // next to the default next hop of the family the announcements brought in
            Nh::Pll => !c.ann.is_empty() && !matches!(c.fam.b, V6u | V6mpls),
            _ => false,
        };
        return Verdict { reply: "err nexthop".into(), ok: if no_form { Ok(()) } else { Err("an encodable next hop was refused".into()) } };
    }
    let (afi, safi, ap) = afisafi(c.fam);
    let exp_wd: Vec<Vec<u8>> = c.wd.as_ref().map_or(vec![], |v| v.iter().enumerate().map(|(i, s)| nlri_octets(c, *s, 1_000_000 + i)).collect());
    let exp_ann: Vec<Vec<u8>> = c.ann.iter().enumerate().map(|(i, s)| nlri_octets(c, *s, i)).collect();
    // value-carrying lines: the reply carries a digest of the octets of every PDU
    let dg = |raw: &[u8]| if c.vals.is_some() { format!(":{}", digest(raw)) } else { String::new() };
    let exp_attrs = ref_attrs(c.attrs);
    let exp_nh = ref_nh(c.fam, c.nh);
    let mut why: Vec<String> = Vec::new();
    let mut descs: Vec<String> = Vec::new();
    let mut got_wd: Vec<Vec<u8>> = Vec::new();
    let mut got_ann: Vec<Vec<u8>> = Vec::new();
    let input_empty = exp_wd.is_empty() && exp_ann.is_empty();
    let mut any_err = run.split_err;
    for (k, it) in run.items.iter().enumerate() {
        match it {
            Item::Err => { any_err = true; descs.push("E".to_string()); }
            Item::Msg(raw) => match decode_update(raw, afi, safi, ap) {
                Err(e) => { why.push(format!("message {} is malformed: {}", k, e)); descs.push(format!("malformed({}){}", e, dg(raw))); }
                Ok(d) => {
                    descs.push(format!("{}:{}:{}:{}:{}:{}{}", d.len, d.wd.len(), d.ann.len(), d.other_attrs.len(), d.nh.as_ref().map_or(0, |n| n.len()), d.pa_len, dg(raw)));
                    if d.len > MAX_PDU { why.push(format!("message {} has {} bytes (> 4096)", k, d.len)); }
                    if !d.ann.is_empty() {
                        // "the full attribute set": every attribute given, with its class flags and value, and no other - as
                        // a SET; the order of the TLVs and the form of the length field (EXTENDED_LEN on a short value) are
                        // not in the clause and are left to the correspondence (audit-r5 B5)
                        if attr_set(&d.other_attrs) != attr_set(&exp_attrs) { why.push(format!("message {} announces NLRI without the full attribute set", k)); }
                        if d.nh.as_ref() != Some(&exp_nh) { why.push(format!("message {} announces NLRI without the given next hop", k)); }
                    }
                    if d.wd.is_empty() && d.ann.is_empty() && !input_empty { why.push(format!("message {} is empty although the input is not", k)); }
                    got_wd.extend(d.wd);
                    got_ann.extend(d.ann);
                }
            },
        }
    }
    if run.hang { why.push(format!("more than {} PDUs pulled: the iterator does not terminate", exp_wd.len() + exp_ann.len() + 2)); }
    // conservation (whole-input operations that reported no error)
    let whole = matches!(c.op, Op::Split | Op::Iter | Op::Single);
    if whole && !any_err && !run.hang {
        if got_wd != exp_wd { why.push(format!("withdrawals not conserved: {} in, {} out (or order/content differs)", exp_wd.len(), got_wd.len())); }
        if got_ann != exp_ann { why.push(format!("announcements not conserved: {} in, {} out (or order/content differs)", exp_ann.len(), got_ann.len())); }
        if c.op != Op::Single && run.items.is_empty() { why.push("no message and no error".into()); }
    }
    if c.op == Op::Take && !any_err && !run.hang {
        // one step: a prefix of the input, and a remainder exactly when something is left
        if !(exp_wd.starts_with(&got_wd) && exp_ann.starts_with(&got_ann)) { why.push("take_message: not a prefix of the input".into()); }
        let left = exp_wd.len() + exp_ann.len() - got_wd.len() - got_ann.len();
        if run.rem != Some(left > 0) { why.push(format!("take_message: {} NLRI left but remainder is {:?}", left, run.rem)); }
    }
    // an error is only justified when the input cannot be represented
    if any_err && !run.hang {
        // (`wd e` = add_withdrawals_from_pdu of a foreign-family PDU: since the C07 repair of K7 it
        // leaves no empty MP_UNREACH builder behind, so it is no reason for an error any more)
        let invalid = c.ann.is_empty() && c.nh != Nh::Default;
        let unrepresentable = if c.op == Op::Single {
            23 + c.attrs
                + (if c.ann.is_empty() && c.nh == Nh::Default { 0 } else { mp_reach_len(exp_nh.len(), exp_ann.iter().map(|x| x.len()).sum()) })
                + c.wd.as_ref().filter(|v| !v.is_empty()).map_or(0, |_| mp_unreach_len(exp_wd.iter().map(|x| x.len()).sum())) > MAX_PDU
        } else {
            exp_wd.iter().any(|w| 23 + mp_unreach_len(w.len()) > MAX_PDU)
                || exp_ann.iter().any(|a| 23 + c.attrs + mp_reach_len(exp_nh.len(), a.len()) > MAX_PDU)
                || (input_empty && 23 + c.attrs > MAX_PDU)
        };
        if !invalid && !unrepresentable { why.push("error reported although the input can be represented".into()); }
    }
    let reply = if run.hang { "hang".to_string() } else {
        match c.op {
            Op::Split => if run.split_err { "err".to_string() } else { format!("ok {} {}", descs.len(), descs.join(" ")).trim_end().to_string() },
            Op::Iter => format!("{} {}", descs.len(), descs.join(" ")).trim_end().to_string(),
            Op::Take => format!("{} {}", descs[0], if run.rem == Some(true) { "some" } else { "none" }),
            Op::Single => descs[0].clone(),
        }
    };
    let ok = if why.is_empty() { Ok(()) } else {
        let more = why.len().saturating_sub(3);
        why.truncate(3);
        Err(format!("{}{}", why.join("; "), if more > 0 { format!("; ... {} more", more) } else { String::new() }))
    };
    Verdict { reply, ok }
}

thread_local! { static LAST: RefCell<Option<(String, Result<(), String>)>> = RefCell::new(None); }

impl Prop for C06 {
    fn gen(&self, rng: &mut Rng, tier: Tier) -> Vec<String> {
        let mut v = gen(rng, tier);
        // the IPv6 global next hop in other representations of "an address": every k-th line whose next-hop token
        // holds one is issued again with the IPv4-mapped (`@m`) and the IPv4-compatible (`@c`) address
        let k = match tier { Tier::Quick => 12, Tier::Thorough => 40 };
        let mut extra = Vec::new();
        let mut seen = 0usize;
        for l in &v {
            let w: Vec<&str> = l.split(' ').collect();
            let n = w.len();
            if n < 5 || w[n - 4] != "nh" { continue; }
            if !matches!(w[n - 3], "v6" | "ll" | "ll2" | "llx" | "m6" | "m6ll" | "pv6" | "pv6ll" | "vpn6") { continue; }
            seen += 1;
            if seen % k != 0 { continue; }
            for sfx in ["@m", "@c"] {
                let mut w2: Vec<String> = w.iter().map(|t| t.to_string()).collect();
                w2[n - 3] = format!("{}{}", w[n - 3], sfx);
                extra.push(w2.join(" "));
            }
        }
        v.extend(extra);
        v
    }

    fn exec(&self, line: &str) -> String {
        LAST.with(|l| *l.borrow_mut() = None);
        let c = match parse_line(line) { Some(c) => c, None => return "bad-op".into() };
        let v = judge(&c);
        LAST.with(|l| *l.borrow_mut() = Some((line.to_string(), v.ok)));
        v.reply
    }

    fn oracle(&self, line: &str, reply: &str) -> Result<(), String> {
        if reply == "bad-op" { return Ok(()); }
        if reply == "panic" { return Err("the builder panicked (neither messages nor an error)".into()); }
        if let Some((l, r)) = LAST.with(|l| l.borrow_mut().take()) { if l == line { return r; } }
        match parse_line(line) { Some(c) => judge(&c).ok, None => Ok(()) }
    }

    fn nontrivial(&self, _line: &str, reply: &str) -> bool { reply != "bad-op" }

    fn class(&self, line: &str, reply: &str) -> String {
        let w: Vec<&str> = line.split(' ').collect();
        let op = w.first().copied().unwrap_or("");
        let fam = w.get(1).copied().unwrap_or("");
        let n = reply.split(' ').filter(|t| t.contains(':')).count();
        let out = if reply == "bad-op" || reply == "panic" || reply == "hang" { reply.to_string() }
            else if reply.starts_with("err") || reply.split(' ').any(|t| t == "E") { "error".to_string() }
            else if n <= 1 { "one-pdu".to_string() } else if n <= 3 { "2-3-pdus".to_string() } else { "4+-pdus".to_string() };
        // value-carrying lines (digest of the octets in the reply) are classes of their own
        let v = if w.iter().any(|t| t.starts_with('=')) { "+bytes" } else { "" };
        format!("{}{}:{}:{}", op, v, fam, out)
    }

    fn watchdog_s(&self) -> u64 { 20 }
}

// ---------------------------------------------------------------- generator

fn fam_name(f: Fam) -> String {
    let n = BASES.iter().find(|(b, _)| *b == f.b).unwrap().1;
    if f.ap { format!("{}a", n) } else { n.to_string() }
}
fn size_range(f: Fam) -> (usize, usize) {
    let (lo, hi) = match f.b { V4u | V4m => (1, 5), V6u | V6m => (1, 17), V4mpls | V6mpls => (4, 32), V4vpn | V6vpn => (12, 32),
        V4rt => (1, 13), V4fs | V6fs => (1, 4097), Vpls => (19, 19), Evpn => (2, 257) };
    if f.ap { (lo + 4, hi + 4) } else { (lo, hi) }
}
fn nh_len(f: Fam, nh: &str) -> usize {
    match nh { "v4" | "m4" | "v4ll" => 5, "v6" | "m6" | "pv6" => 17, "ll" | "ll2" | "llx" | "ll3" | "m6ll" | "pv6ll" => 33, "vpn4" => 13, "vpn6" => 25, "empty" => 1,
        "pll" => if matches!(f.b, V6u | V6mpls) { 33 } else { 1 + default_nh_bytes(f) },
        _ => 1 + default_nh_bytes(f) }
}
/// the next-hop forms a family is used with (RFC 4760 3, 2545 3, 8277, 4364 4.3.2, 4659 3.2.1, 8955 4)
fn natural_nhs(f: Fam) -> &'static [&'static str] {
    match f.b { V4u | V4rt | Vpls | Evpn => &["v4"], V4m => &["m4", "v4"], V6u => &["v6", "ll", "ll2", "llx", "ll3", "pll", "pv6", "pv6ll"], V6m => &["v6", "m6", "pv6"],
        V4mpls | V6mpls => &["v4", "v6", "ll", "llx", "pv6ll"], V4vpn => &["vpn4"], V6vpn => &["vpn6"], V4fs | V6fs => &["empty"] }
}

fn fix_size(f: Fam, s: usize) -> usize {
    let (lo, hi) = size_range(f);
    let mut s = s.clamp(lo, hi);
    // the few sizes inside the range that no NLRI has (FlowSpec: 241, IPv4 FlowSpec: 2)
    while !size_ok(f, s) { s -= 1; }
    s
}

/// tokens of family `f` whose sizes add up to exactly `total` (if possible), using sizes around `s`
fn fill(f: Fam, total: usize, s: usize) -> Vec<String> {
    let ok = |x: usize| size_ok(f, x);
    let s = fix_size(f, s);
    let mut out = Vec::new();
    if total == 0 { return out; }
    let mut n = total / s;
    let mut rest = total - n * s;
    let mut tail: Vec<usize> = Vec::new();
    if rest != 0 && !ok(rest) {
        // borrow one `s` and split s + rest in two representable sizes
        if n > 0 { n -= 1; rest += s; }
        let (lo, hi) = size_range(f);
        let mut found = false;
        for a in lo..=hi.min(rest) {
            if ok(a) && rest > a && ok(rest - a) { tail.push(a); tail.push(rest - a); found = true; break; }
        }
        if !found { tail.push(fix_size(f, rest)); }
    } else if rest != 0 { tail.push(rest); }
    if n > 0 { out.push(if n == 1 { format!("{}", s) } else { format!("{}x{}", s, n) }); }
    for t in tail { out.push(format!("{}", t)); }
    out
}

fn rand_list(rng: &mut Rng, f: Fam, max_total: usize) -> Vec<String> {
    let (lo, hi) = size_range(f);
    let mut out = Vec::new();
    let mut total = 0;
    let k = rng.usize(1, 6);
    for _ in 0..k {
        let s = if f.b == V6fs || f.b == V4fs {
            match rng.below(6) { 0 => rng.usize(1, 8), 1 => rng.usize(200, 260), 2 => rng.usize(900, 2100), 3 => rng.usize(3900, 4101), _ => rng.usize(1, 600) }
        } else if f.b == Evpn {
            match rng.below(4) { 0 => rng.usize(lo, lo + 40), 1 => rng.usize(hi - 4, hi), _ => rng.usize(lo, hi) }
        } else { rng.usize(lo, hi) };
        let s = fix_size(f, s);
        let room = max_total.saturating_sub(total) / s;
        if room == 0 { break; }
        let n = match rng.below(4) { 0 => 1, 1 => rng.usize(1, 4), _ => rng.usize(1, room.min(3000)) };
        total += s * n;
        out.push(if n == 1 { format!("{}", s) } else { format!("{}x{}", s, n) });
    }
    out
}

fn line(op: &str, f: Fam, wd: &[String], ann: &[String], nh: &str, attrs: usize) -> String {
    let w = if wd.is_empty() { "-".to_string() } else { wd.join(" ") };
    let a = if ann.is_empty() { "-".to_string() } else { ann.join(" ") };
    format!("{} {} wd {} ann {} nh {} attrs {}", op, fam_name(f), w, a, nh, attrs)
}

/// the eight NLRI types of the first version of this check: they keep the full boundary block
const FAMS: [Fam; 8] = [Fam { b: V4u, ap: false }, Fam { b: V6u, ap: false }, Fam { b: V4u, ap: true }, Fam { b: V6u, ap: true },
    Fam { b: V6fs, ap: false }, Fam { b: V4m, ap: false }, Fam { b: V6m, ap: false }, Fam { b: V4mpls, ap: false }];
const NHS: [&str; 18] = ["-", "v4", "m4", "v6", "ll", "ll2", "llx", "vpn4", "vpn6", "empty", "unimpl", "ll3", "v4ll", "m6", "m6ll", "pll", "pv6", "pv6ll"];
const OPS: [&str; 4] = ["split", "iter", "take", "single"];

fn all_fams() -> Vec<Fam> {
    let mut v = Vec::new();
    for (b, _) in BASES { v.push(Fam { b, ap: false }); v.push(Fam { b, ap: true }); }
    v
}

fn fix_attrs(a: usize) -> usize { if a == 1 || a == 2 { 3 } else { a } }

/// the boundary block of the 18 NLRI types added later: the same thresholds as the full block,
/// each visited with the family's smallest and largest (<= 36) size, fewer operations per point
fn gen_boundary_reduced(v: &mut Vec<String>, f: Fam) {
    let s = |x: &str| x.to_string();
    let (lo, hi) = size_range(f);
    let hi = fix_size(f, hi.min(36));
    let nat = natural_nhs(f)[0];
    for (i, total) in [3999usize, 4000, 4001, 4002, 4060, 4067, 4095, 4096, 4097, 8001].into_iter().enumerate() {
        let op = if i % 2 == 0 { "split" } else { "iter" };
        for sz in [lo, hi] {
            v.push(line(op, f, &fill(f, total, sz), &[], "-", 0));
            v.push(line(op, f, &fill(f, total, sz), &fill(f, 5000, sz), nat, 64));
        }
    }
    for nh in ["-", nat] {
        for attrs in [0usize, 259, 3000] {
            let limit = MAX_PDU - 31 - nh_len(f, nh) - attrs;
            for d in [-1i64, 0, 1, 2] {
                let op = if d % 2 == 0 { "split" } else { "iter" };
                let t = (limit as i64 + d) as usize;
                v.push(line(op, f, &[], &fill(f, t, hi), nh, attrs));
                v.push(line(op, f, &[], &fill(f, t, lo), nh, attrs));
                v.push(line(op, f, &[], &fill(f, (2 * limit as i64 + d) as usize, hi), nh, attrs));
            }
        }
    }
    for n in [2047usize, 2048, 2049, 4097] {
        for op in OPS { v.push(line(op, f, &[], &[format!("{}x{}", lo, n)], "-", 0)); }
        v.push(line("split", f, &[format!("{}x{}", lo, 10)], &[format!("{}x{}", lo, n)], nat, 100));
    }
    for (i, attrs) in [0usize, 3, 255, 260, 4040, 4060, 4066, 4070, 4075, 9000].into_iter().enumerate() {
        let op = OPS[i % 4];
        v.push(line(op, f, &[], &[], "-", attrs));
        v.push(line(op, f, &[], &[format!("{}", lo)], "-", attrs));
        v.push(line(op, f, &[format!("{}x2", lo)], &[], "-", attrs));
        v.push(line("split", f, &[format!("{}x2", lo)], &[format!("{}x2", hi)], nat, attrs));
    }
    for op in ["split", "single"] {
        v.push(line(op, f, &[], &[], nat, 0));
        v.push(line(op, f, &[s("e")], &[], "-", 7));
        v.push(line(op, f, &[s("e")], &[format!("{}x3000", lo)], "-", 0));
        v.push(line(op, f, &[format!("{}x3000", lo)], &[], nat, 0));
        v.push(line(op, f, &[], &[format!("{}", lo)], "unimpl", 0));
    }
    // every next-hop form once per family
    for nh in NHS { v.push(line("split", f, &[format!("{}", hi)], &[format!("{}x3", lo), format!("{}", hi)], nh, 11)); }
}

/// the value-carrying form of a size-only line: every NLRI as `=<hex>` of the octets the size-only
/// line stands for (same values, so the two lines describe the same builder)
fn concretize(l: &str) -> Option<String> {
    let c = parse_line(l)?;
    if c.vals.is_some() { return None; }
    let w: Vec<&str> = l.split(' ').collect();
    let n = w.len();
    let ia = w.iter().position(|t| *t == "ann")?;
    let tok = |raw: Vec<u8>| format!("={}", hex(&raw));
    let wd = match &c.wd {
        None => "-".to_string(),
        Some(v) if v.is_empty() => "e".to_string(),
        Some(v) => v.iter().enumerate().map(|(i, s)| tok(ref_nlri(c.fam, *s, 1_000_000 + i))).collect::<Vec<_>>().join(" "),
    };
    // a line without NLRI cannot be marked as value-carrying
    if c.ann.is_empty() && c.wd.as_ref().map_or(true, |v| v.is_empty()) { return None; }
    let ann = if c.ann.is_empty() { "-".to_string() } else {
        c.ann.iter().enumerate().map(|(i, s)| tok(ref_nlri(c.fam, *s, i))).collect::<Vec<_>>().join(" ") };
    let _ = ia;
    Some(format!("{} {} wd {} ann {} nh {} attrs {}", w[0], w[1], wd, ann, w[n - 3], w[n - 1]))
}

/// number of NLRI a size-only line holds (0 if it does not parse)
fn nlri_count(l: &str) -> usize { parse_line(l).map_or(0, |c| c.ann.len() + c.wd.map_or(0, |v| v.len())) }

fn gen(rng: &mut Rng, tier: Tier) -> Vec<String> {
    let mut v: Vec<String> = Vec::new();
    let s = |x: &str| x.to_string();
    // ---- boundary families: thresholds of the splitter, every family
    for f in FAMS {
        let (lo, hi) = size_range(f);
        let hi = hi.min(32);
        for op in ["split", "iter"] {
            // cumulative withdrawal sizes around the 4000-byte batch and the PDU limit
            for total in [3999usize, 4000, 4001, 4002, 4060, 4066, 4067, 4095, 4096, 4097, 8000, 8001] {
                for sz in [lo, hi] {
                    v.push(line(op, f, &fill(f, total, sz), &[], "-", 0));
                    v.push(line(op, f, &fill(f, total, sz), &fill(f, 40, sz), "-", 0));
                    v.push(line(op, f, &fill(f, total, sz), &fill(f, 5000, sz), "-", 64));
                }
            }
            // announcements around limit = 4096 - 31 - nh - attrs
            for nh in ["-", "ll", "vpn4"] {
                for attrs in [0usize, 3, 200, 258, 259, 260, 1000, 3000] {
                    let limit = MAX_PDU - 31 - nh_len(f, nh) - attrs;
                    for d in [-1i64, 0, 1, 2] {
                        let t = (limit as i64 + d) as usize;
                        v.push(line(op, f, &[], &fill(f, t, hi), nh, attrs));
                        v.push(line(op, f, &[], &fill(f, t, lo), nh, attrs));
                        v.push(line(op, f, &[], &fill(f, (2 * limit as i64 + d) as usize, hi), nh, attrs));
                    }
                }
            }
        }
        // the 2048-announcement shortcut of larger_than
        for n in [2047usize, 2048, 2049, 2050, 4096, 4097] {
            for op in OPS { v.push(line(op, f, &[], &[format!("{}x{}", lo, n)], "-", 0)); }
            v.push(line("split", f, &[format!("{}x{}", lo, 10)], &[format!("{}x{}", lo, n)], "-", 100));
        }
        // attribute sets from empty to the PDU limit and beyond
        for attrs in [0usize, 3, 4, 255, 258, 259, 260, 4000, 4030, 4040, 4050, 4060, 4064, 4065, 4066, 4067, 4070, 4071, 4072, 4073, 4074, 4075, 4100, 9000] {
            for op in OPS {
                v.push(line(op, f, &[], &[], "-", attrs));
                v.push(line(op, f, &[], &[format!("{}", lo)], "-", attrs));
                v.push(line(op, f, &[], &[format!("{}x3", lo)], "-", attrs));
                v.push(line(op, f, &[format!("{}x2", lo)], &[], "-", attrs));
                v.push(line(op, f, &[format!("{}x2", lo)], &[format!("{}x2", hi)], "v6", attrs));
            }
        }
        // invalid combinations: empty MP_REACH (next hop only), empty MP_UNREACH
        for op in OPS {
            v.push(line(op, f, &[], &[], "v4", 0));
            v.push(line(op, f, &[s("e")], &[], "-", 0));
            v.push(line(op, f, &[s("e")], &[], "-", 7));
            v.push(line(op, f, &[s("e")], &[format!("{}", lo)], "-", 0));
            v.push(line(op, f, &[s("e")], &[format!("{}x3000", lo)], "-", 0));
            v.push(line(op, f, &[format!("{}x3000", lo)], &[], "v6", 0));
            v.push(line(op, f, &[s("e")], &[], "v6", 5000));
            v.push(line(op, f, &[], &[format!("{}", lo)], "unimpl", 0));
            v.push(line(op, f, &[format!("{}x2", lo)], &[], "unimpl", 9));
            v.push(line(op, f, &[], &[format!("{}", lo)], "v4ll", 0));
            v.push(line(op, f, &[format!("{}x2", lo)], &[format!("{}x900", hi)], "ll3", 9));
        }
    }
    // ---- the other 18 NLRI types
    for f in all_fams() { if !FAMS.contains(&f) { gen_boundary_reduced(&mut v, f); } }
    // ---- every NLRI type: the next-hop calls in every order (audit C06-3a/3b), raw copies of the
    // MP attributes in the attribute map (audit C06-1a), attributes next to withdrawals only (C06-1c)
    for f in all_fams() {
        let (lo, hi) = size_range(f);
        let hi = fix_size(f, hi.min(36));
        let l1 = [format!("{}", lo)];
        let mix = [format!("{}x3", lo), format!("{}", hi)];
        for nh in ["m6", "m6ll", "pll", "pv6", "pv6ll", "ll3", "ll2", "llx"] {
            v.push(line("split", f, &[], &mix, nh, 11));
            v.push(line("iter", f, &l1, &[format!("{}x1500", hi)], nh, 300));
            v.push(line("single", f, &[], &[], nh, 0));
        }
        for sfx in ["+mp14", "+mp15", "+mp"] {
            v.push(format!("{}{}", line("split", f, &[], &l1, "-", 4), sfx));
            v.push(format!("{}{}", line("iter", f, &l1, &[], "-", 4), sfx));
            v.push(format!("{}{}", line("split", f, &mix, &[format!("{}x1500", hi)], natural_nhs(f)[0], 64), sfx));
            v.push(format!("{}{}", line("single", f, &[], &l1, "-", 0), sfx));
            v.push(format!("{}{}", line("take", f, &l1, &l1, "-", 0), sfx));
            v.push(format!("{}{}", line("split", f, &[], &[], "-", 0), sfx));
        }
        // one withdrawal next to attributes that fill a PDU: sent alone, the attributes have no
        // announcement to describe
        for attrs in [4060usize, 4066, 4073, 4094, 9000] {
            v.push(line("split", f, &l1, &[], "-", attrs));
            v.push(line("iter", f, &[format!("{}x2000", lo)], &[], "-", attrs));
        }
    }
    // ---- large single NLRI (FlowSpec): each size class around what fits alone
    let v6fs = Fam { b: V6fs, ap: false };
    for op in OPS {
        for sz in [239usize, 240, 242, 243, 3999, 4000, 4001, 4002, 4058, 4059, 4060, 4061, 4062, 4063, 4064, 4065, 4066, 4067, 4068, 4097] {
            v.push(line(op, v6fs, &[format!("{}", sz)], &[], "-", 0));
            v.push(line(op, v6fs, &[], &[format!("{}", sz)], "-", 0));
            v.push(line(op, v6fs, &[], &[format!("{}", sz)], "ll", 0));
            v.push(line(op, v6fs, &[format!("{}", sz), s("5")], &[s("7"), format!("{}", sz)], "-", 0));
            v.push(line(op, v6fs, &[s("5x3"), format!("{}", sz), s("9")], &[s("7"), format!("{}", sz), s("3")], "-", 4));
        }
    }
    // the same for IPv4 FlowSpec (component lists) and the ADD-PATH variants (path id + 4)
    for f in [Fam { b: V4fs, ap: false }, Fam { b: V4fs, ap: true }, Fam { b: V6fs, ap: true }] {
        let k = if f.ap { 4 } else { 0 };
        for (i, sz) in [239usize, 240, 242, 243, 3999, 4000, 4001, 4002, 4058, 4060, 4061, 4062, 4063, 4064, 4065, 4066, 4068, 4097].into_iter().enumerate() {
            let sz = sz + k;
            let op = OPS[i % 4];
            v.push(line("split", f, &[format!("{}", sz)], &[], "-", 0));
            v.push(line(op, f, &[], &[format!("{}", sz)], "-", 0));
            v.push(line("iter", f, &[format!("{}", sz), format!("{}", 5 + k)], &[format!("{}", 7 + k), format!("{}", sz)], "empty", 4));
        }
    }
    // EVPN: the largest route (255 bytes after the two header octets) around the batch limits
    for f in [Fam { b: Evpn, ap: false }, Fam { b: Evpn, ap: true }] {
        let (_, hi) = size_range(f);
        for op in ["split", "iter"] {
            for n in [15usize, 16, 17] {
                v.push(line(op, f, &[format!("{}x{}", hi, n)], &[format!("{}x{}", hi, n)], "v4", 0));
                v.push(line(op, f, &[format!("{}x{}", hi - 1, n), s("9")], &[format!("{}x{}", hi, n), s("10")], "-", 300));
            }
        }
    }
    // ---- bad-op stream
    for l in ["split", "split v4u wd - ann - nh - attrs", "split v4u wd - ann - nh - attrs 1", "split v4u wd - ann - nh - attrs 2",
              "split v4u wd 6 ann - nh - attrs 0", "split v4ua wd 4 ann - nh - attrs 0", "split v6fs wd 241 ann - nh - attrs 0",
              "split v6fs wd 4098 ann - nh - attrs 0", "split v4u wd 0 ann - nh - attrs 0", "split v4u wd 1x0 ann - nh - attrs 0",
              "split v9 wd - ann - nh - attrs 0", "join v4u wd - ann - nh - attrs 0", "split v4u wd - ann - nh foo attrs 0",
              "split v4u wd ann - nh - attrs 0", "split v4u wd - ann nh - attrs 0", "split v4u wd - - ann - nh - attrs 0",
              "split v4u wd e e ann - nh - attrs 0", "split v4u wd - ann e nh - attrs 0", "split v4u wd 1x ann - nh - attrs 0",
              "split v4u wd x1 ann - nh - attrs 0", "split v4u wd -1 ann - nh - attrs 0", "split v4u wd 1 ann 1 nh - attrs x",
              "split v4fs wd 2 ann - nh - attrs 0", "split v4fsa wd 6 ann - nh - attrs 0", "split v4fs wd 241 ann - nh - attrs 0",
              "split vpls wd 18 ann - nh - attrs 0", "split vpls wd 20 ann - nh - attrs 0", "split vplsa wd 19 ann - nh - attrs 0",
              "split evpn wd 1 ann - nh - attrs 0", "split evpn wd 258 ann - nh - attrs 0", "split evpna wd 262 ann - nh - attrs 0",
              "split v4vpn wd 11 ann - nh - attrs 0", "split v6vpn wd 33 ann - nh - attrs 0", "split v6vpna wd 15 ann - nh - attrs 0",
              "split v4rt wd 14 ann - nh - attrs 0", "split v6mpls wd 3 ann - nh - attrs 0", "split v6mplsa wd 37 ann - nh - attrs 0",
              "split a wd - ann - nh - attrs 0", "split v4uaa wd 9 ann - nh - attrs 0", "split v6rt wd 1 ann - nh - attrs 0",
              "split v4u wd - ann 5 nh - attrs 4+mp16", "split v4u wd - ann 5 nh - attrs 4+", "split v4u wd - ann 5 nh - attrs +mp14",
              "split v4u wd - ann 5 nh - attrs 4+mp+mp", "split v4u wd - ann 5 nh llp attrs 4"] {
        v.push(s(l));
    }
    // ---- random mixes
    let fams = all_fams();
    let n = match tier { Tier::Quick => 3000, Tier::Thorough => 300_000 };
    for _ in 0..n {
        let f = *rng.pick(&fams);
        let op = match rng.below(10) { 0..=4 => "split", 5..=7 => "iter", 8 => "take", _ => "single" };
        let nh = match rng.below(10) { 0..=3 => "-", 4..=7 => *rng.pick(natural_nhs(f)), _ => *rng.pick(&NHS) };
        let attrs = fix_attrs(match rng.below(8) { 0 => 0, 1 => rng.usize(3, 300), 2 => rng.usize(3900, 4100), 3 => rng.usize(0, 4070), _ => rng.usize(0, 600) });
        let budget = match rng.below(5) { 0 => 300, 1 => 4200, 2 => 9000, _ => 30_000 };
        let (wd, ann): (Vec<String>, Vec<String>) = match rng.below(10) {
            0 => (rand_list(rng, f, budget), vec![]),
            1 => (vec![], rand_list(rng, f, budget)),
            2 => {
                // withdrawals that total <= 4000 next to an oversize announcement set (F13's shape)
                let t = rng.usize(1, 4000);
                (fill(f, t, rng.usize(1, 40)), rand_list(rng, f, 30_000))
            }
            3 => {
                // land on a threshold
                let t = *rng.pick(&[3999usize, 4000, 4001, 4002, 4095, 4096, 4097]);
                (fill(f, t, rng.usize(1, 40)), if rng.bool() { vec![] } else { rand_list(rng, f, budget) })
            }
            4 => {
                let limit = MAX_PDU.saturating_sub(31 + nh_len(f, nh) + attrs);
                let t = (limit as i64 + rng.range(0, 3) as i64 - 1).max(1) as usize;
                (if rng.bool() { vec![] } else { rand_list(rng, f, 4200) }, fill(f, t * rng.usize(1, 3), rng.usize(1, 40)))
            }
            _ => (rand_list(rng, f, budget), rand_list(rng, f, budget)),
        };
        let sfx = match rng.below(30) { 0 => "+mp14", 1 => "+mp15", 2 => "+mp", _ => "" };
        v.push(format!("{}{}", line(op, f, &wd, &ann, nh, attrs), sfx));
    }
    // ---- value-carrying lines (the model's byte image against the real octets): every NLRI type's
    // next-hop forms, attribute sizes and MP header forms, one line in `every` of everything above (at most 3000 NLRI a
    // line), and the malformed value tokens
    let every = match tier { Tier::Quick => 9, Tier::Thorough => 40 };
    let mut cv: Vec<String> = Vec::new();
    for f in all_fams() {
        let (lo, hi) = size_range(f);
        let hi = fix_size(f, hi.min(36));
        for nh in NHS {
            cv.push(line("split", f, &[format!("{}", hi)], &[format!("{}x3", lo), format!("{}", hi)], nh, 11));
            cv.push(line("iter", f, &[], &[format!("{}x2", hi)], nh, 300));
        }
        let nat = natural_nhs(f)[0];
        for attrs in [0usize, 3, 4, 7, 11, 12, 99, 100, 255, 258, 259, 260, 263, 270, 1000, 3000] {
            cv.push(line("split", f, &[format!("{}x2", lo)], &[format!("{}", hi), format!("{}", lo)], nat, attrs));
        }
        // the header forms of the two MP attributes: value lengths 255 / 256 and the PDU limit
        // (MP_UNREACH_NLRI value = 3 + NLRI octets, MP_REACH_NLRI value = 4 + next hop with its length octet + NLRI octets)
        for v in [254usize, 255, 256, 257] {
            cv.push(line("single", f, &fill(f, v - 3, hi), &[], "-", 0));
            cv.push(line("single", f, &[], &fill(f, v - 4 - nh_len(f, nat), hi), nat, 0));
            cv.push(line("split", f, &fill(f, v - 3, lo), &fill(f, v - 4 - nh_len(f, nat), lo), nat, 64));
        }
        for t in [4000usize, 4060] {
            cv.push(line("single", f, &fill(f, t, hi), &[], "-", 0));
            cv.push(line("single", f, &[], &fill(f, t, hi), nat, 0));
            cv.push(line("split", f, &fill(f, t, lo.max(4)), &fill(f, t, hi), nat, 64));
        }
    }
    for (i, l) in v.iter().enumerate() { if i % every == 0 && nlri_count(l) <= 3000 { cv.push(l.clone()); } }
    for l in cv { if let Some(x) = concretize(&l) { v.push(x); } }
    for l in ["split v4u wd =0 ann - nh - attrs 0", "split v4u wd = ann - nh - attrs 0", "split v4u wd =18 ann 1 nh - attrs 0",
              "split v4u wd 1 ann =00 nh - attrs 0", "split v4u wd =21ff ann - nh - attrs 0", "split v4u wd =18x0 ann - nh - attrs 0",
              "split v4u wd =00x ann - nh - attrs 0", "split v4u wd =00x2x2 ann - nh - attrs 0", "split v4u wd =180A0000 ann - nh - attrs 0",
              "split v4u wd =180a0100 ann - nh - attrs 0", "split v4u wd =180a01 ann - nh - attrs =0", "split v4ua wd =180a0100 ann - nh - attrs 0",
              "split v4u wd =180a0101 ann - nh - attrs 0", "split v6u wd =81 ann - nh - attrs 0", "split v4u wd =- ann - nh - attrs 0",
              "split =v4u wd - ann - nh - attrs 0", "split v4u wd - ann - nh =v4 attrs 0", "split v4u wd e ann =00 nh - attrs 0"] {
        v.push(s(l));
    }
    v
}
