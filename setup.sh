#!/bin/sh
# MANIFEST.setup_cmd: build the framework from files on disk only (offline).
set -e
cd "$(dirname "$0")"
export CARGO_NET_OFFLINE=true
mkdir -p work evidence
python3 tools/gen_codepoints.py /repo lean/Rc/Gen/Codepoints.lean work/codepoint_fingerprints.json || true
python3 tools/gen_wellknown.py /repo lean/Rc/Gen/Wellknown.lean || true
python3 tools/gen_codepoints.py @check - --attr-flags lean/Rc/Gen/AttrFlags.lean --constants lean/Rc/Gen/Constants.lean || true
# the theorem modules are built here once (each ./check re-runs `lake build Rc.Thm.Cxx`, a no-op unless a
# generated table or a model changed), so that a check's wall time is the tie, not the first proof build
(cd lean && lake build Rc rcdriver $(for i in 01 02 03 04 05 06 07 08 09 10 11 12 13 14 15 16 17 18 19 20; do echo Rc.Thm.C$i; done))
(cd harness && cargo build)
echo setup done
