#!/bin/sh
# MANIFEST.setup_cmd: build the framework from files on disk only (offline).
set -e
cd "$(dirname "$0")"
export CARGO_NET_OFFLINE=true
mkdir -p work evidence
python3 tools/gen_codepoints.py /repo lean/Rc/Gen/Codepoints.lean work/codepoint_fingerprints.json || true
python3 tools/gen_wellknown.py /repo lean/Rc/Gen/Wellknown.lean || true
python3 tools/gen_codepoints.py @check - --attr-flags lean/Rc/Gen/AttrFlags.lean --constants lean/Rc/Gen/Constants.lean || true
(cd lean && lake build Rc rcdriver)
(cd harness && cargo build)
echo setup done
